"""E1: may-alias + in-place effect analysis (flow-sensitive per function, summaries over the call graph).

Abstract value of an expression = set of *origins*:
  ("P", name, kind)  alias of parameter ``name``; kind "id" = the very object, "view" = (possibly) a view sharing storage
  ("S", attr, kind)  alias of ``self.<attr>`` ("" = self itself)
  "G"                some other shared/global object
  "F"                fresh object created here
  "N"                not a tensor (number, str, None, shape, ...)
An in-place operation on a value whose origins contain a P/S origin is recorded as an effect on that parameter / attribute.
Function summaries (returns-alias-of, mutates) are computed to a fixpoint over resolved repo callees.
"""
from __future__ import annotations

import ast
from dataclasses import dataclass, field
from typing import Dict, FrozenSet, Iterable, List, Optional, Set, Tuple

from .core import Ctx
from .index import ClassInfo, FunctionInfo, dotted, walk_no_nested
from .torch_model import (FRESH_FUNCS, FRESH_METHODS, INPLACE_METHODS, META_INPLACE_METHODS, NONTENSOR_ATTRS, NONTENSOR_FUNCS,
                          NONTENSOR_METHODS, SAME_OBJECT_FUNCS, SAME_OBJECT_METHODS, VIEW_ATTRS, VIEW_FUNCS, VIEW_METHODS)

Origin = object
F, N, G = "F", "N", "G"
TF = "TF"  # torch function object


def P(name: str, kind: str = "id") -> Tuple[str, str, str]:
    return ("P", name, kind)


def S(attr: str, kind: str = "id") -> Tuple[str, str, str]:
    return ("S", attr, kind)


def weaken(o: FrozenSet[Origin]) -> FrozenSet[Origin]:
    """id -> view (result of a view-producing operation)."""
    return frozenset((x[0], x[1], "view") if isinstance(x, tuple) else x for x in o)


def shared(o: Iterable[Origin]) -> List[Tuple[str, str, str]]:
    return [x for x in o if isinstance(x, tuple)]


@dataclass
class Effect:
    target: Tuple[str, str, str]  # P/S origin
    node: ast.AST
    op: str
    via: str = ""  # callee key if through a call


@dataclass
class Summary:
    returns: FrozenSet[Origin] = frozenset()
    effects: List[Effect] = field(default_factory=list)
    unclassified: Set[str] = field(default_factory=set)

    def mutated_params(self) -> Set[str]:
        return {e.target[1] for e in self.effects if e.target[0] == "P"}

    def mutated_self(self) -> Set[str]:
        return {e.target[1] for e in self.effects if e.target[0] == "S"}


FLAG_DEFAULTS = {"inplace": False, "out": None}


def _has_rank_guard(fi: FunctionInfo, param: str, bound: int) -> bool:
    """``if <param>.ndim < bound: raise`` (or .dim()) is still present at the top level of the function."""
    for st in fi.node.body:
        if isinstance(st, ast.If) and st.body and isinstance(st.body[0], ast.Raise):
            t = ast.unparse(st.test)
            if t in (f"{param}.ndim < {bound}", f"{param}.dim() < {bound}"):
                return True
    return False


def _has_identity_clone_guard(fi: FunctionInfo) -> bool:
    for st in ast.walk(fi.node):
        if isinstance(st, ast.If) and ast.unparse(st.test) == "matrix is tensor" and any(
                isinstance(b, ast.Assign) and ast.unparse(b) == "matrix = tensor.clone()" for b in st.body):
            return True
    return False


# Frozen exception table: (function, parameter, operation substring) -> (reason, validator). Each entry is a place where
# freshness relies on "the loop runs at least once" or on a dynamic identity guard, which the path-insensitive join cannot see.
def _guarded_by(fi: FunctionInfo, node: ast.AST, test_src: str) -> bool:
    """Is ``node`` inside the body of an ``if <test_src>:`` statement of ``fi``?"""
    for st in ast.walk(fi.node):
        if isinstance(st, ast.If) and ast.unparse(st.test) == test_src:
            for b in st.body:
                if any(n is node for n in ast.walk(b)):
                    return True
    return False


def _int_copy_guard(fi: FunctionInfo, e: "Effect") -> bool:
    """round_/clamp_ run only for non-floating-point input, in which case ``data.type(<float dtype>)`` made a copy."""
    has_cast = any(isinstance(n, ast.Assign) and ast.unparse(n.value) in ("data.type(dtype)", "data.type(kernel.dtype)") for n in ast.walk(fi.node))
    return has_cast and (_guarded_by(fi, e.node, "not torch.is_floating_point(data)") or _guarded_by(fi, e.node, "not is_float_dtype(dtype)"))


EXCEPTIONS = {
    ("deepali.core.image:conv", "data", ".round_()"): (
        "only reached for integer input, which data.type(<floating dtype>) has copied", _int_copy_guard),
    ("deepali.core.image:conv", "data", ".clamp_()"): (
        "only reached for integer input, which data.type(<floating dtype>) has copied", _int_copy_guard),
    ("deepali.core.image:conv1d", "data", ".round_()"): (
        "only reached for integer input, which data.type(<floating kernel dtype>) has copied", _int_copy_guard),
    ("deepali.core.image:conv1d", "data", ".clamp_()"): (
        "only reached for integer input, which data.type(<floating kernel dtype>) has copied", _int_copy_guard),
    ("deepali.core.image:spatial_derivatives", "data", ".div_()"): (
        "gaussian/bspline arms: deriv is rebound to a conv1d / evaluate_cubic_bspline result in a loop over range(D) with D >= 2 "
        "(data.ndim >= 4 is enforced on entry) before the in-place division",
        lambda fi, e: _has_rank_guard(fi, "data", 4)),
    ("deepali.core.bspline:evaluate_cubic_bspline", "data", ""): (
        "output is rebound to a convolution result for each of the D >= 1 spatial dimensions (data.ndim >= 3 enforced on entry)",
        lambda fi, e: _has_rank_guard(fi, "data", 3)),
    ("deepali.core.linalg:homogeneous_matrix", "tensor", "augmented item assignment"): (
        "as_homogeneous_matrix returns its argument itself only for (..., D, D+1) input, which the `matrix is tensor` guard clones; "
        "the view case (1-D translation) is always concatenated into a fresh matrix",
        lambda fi, e: _has_identity_clone_guard(fi)),
}


class Effects:
    def __init__(self, ctx: Ctx):
        self.ctx = ctx
        self.prog = ctx.prog
        self.ti = ctx.ti
        self.summaries: Dict[Tuple[str, Tuple], Summary] = {}
        self._in_progress: Set[Tuple[str, Tuple]] = set()
        self.changed = False
        self.exceptions_used: Set[Tuple[str, str, str]] = set()

    # ------------------------------------------------------------------ public
    def summary(self, fi: FunctionInfo, flags: Optional[Dict[str, object]] = None) -> Summary:
        flags = dict(FLAG_DEFAULTS if flags is None else flags)
        key = (fi.key, tuple(sorted((k, repr(v)) for k, v in flags.items() if k in fi.params)))
        if key in self.summaries and key not in self._in_progress:
            return self.summaries[key]
        if key in self._in_progress:
            return self.summaries.get(key, Summary())
        self._in_progress.add(key)
        self.summaries.setdefault(key, Summary())
        for _ in range(4):  # fixpoint for (mutual) recursion
            new = _FunctionAnalysis(self, fi, {k: v for k, v in flags.items() if k in fi.params}).run()
            new = self._apply_exceptions(fi, new)
            old = self.summaries[key]
            if new.returns == old.returns and {(e.target, e.op) for e in new.effects} == {(e.target, e.op) for e in old.effects}:
                self.summaries[key] = new
                break
            self.summaries[key] = new
        self._in_progress.discard(key)
        return self.summaries[key]


    def _apply_exceptions(self, fi: FunctionInfo, s: Summary) -> Summary:
        keep = []
        for e in s.effects:
            drop = False
            if e.target[0] == "P" and not e.via:
                for (fk, param, opsub), (reason, validator) in EXCEPTIONS.items():
                    if fk == fi.key and param == e.target[1] and opsub in e.op:
                        if validator(fi, e):
                            drop = True
                            self.exceptions_used.add((fk, param, opsub))
                        break
            if not drop:
                keep.append(e)
        s.effects = keep
        return s


class _FunctionAnalysis:
    def __init__(self, eng: Effects, fi: FunctionInfo, flags: Dict[str, object]):
        self.eng = eng
        self.fi = fi
        self.flags = flags
        self.prog = eng.prog
        self.ti = eng.ti
        self.tenv = self.ti.env(fi)
        self.effects: List[Effect] = []
        self.returns: Set[Origin] = set()
        self.unclassified: Set[str] = set()
        a = fi.node.args
        self.selfname = None
        params = [x.arg for x in a.posonlyargs + a.args + a.kwonlyargs]
        if fi.cls is not None and not fi.is_static and params:
            self.selfname = params[0]
        self.params = params
        self.nested: Dict[str, ast.FunctionDef] = {}
        self.assumed_fresh_callables: Set[str] = set()
        self._nest_depth = 0
        self.vararg = a.vararg.arg if a.vararg else None
        self.kwarg = a.kwarg.arg if a.kwarg else None

    # ------------------------------------------------------------------ driver
    def run(self) -> Summary:
        env: Dict[str, FrozenSet[Origin]] = {}
        for p in self.params:
            if p == self.selfname:
                env[p] = frozenset([S("")]) if not self.fi.is_classmethod else frozenset([N])
            elif p in self.flags:
                env[p] = frozenset([N])
            else:
                env[p] = frozenset([N]) if self._nontensor_type(self.tenv.get(p, frozenset())) else frozenset([P(p)])
        if self.vararg:
            env[self.vararg] = frozenset([P(self.vararg)])
        if self.kwarg:
            env[self.kwarg] = frozenset([N])
        self.block(self.fi.node.body, env)
        return Summary(frozenset(self.returns), self.effects, self.unclassified)

    def _nontensor_type(self, t) -> bool:
        if not t:
            return False
        return all(isinstance(x, str) and x in ("int", "float", "bool", "str", "None", "tuple", "list", "dict", "callable") or
                   (isinstance(x, tuple) and x[0] in ("type", "module")) or self._nontensor_class(x) for x in t)

    def _nontensor_class(self, x) -> bool:
        return isinstance(x, ClassInfo) and not self.ti.is_tensor_class(x) and not self.prog.is_module_class(x) and x.name in (
            "Grid", "Cube", "Axes", "Sampling", "PaddingMode", "SpatialDim", "FlowDerivativeKeys", "SpatialDerivativeKeys")

    # ------------------------------------------------------------------ statements
    def block(self, body: List[ast.stmt], env: Dict[str, FrozenSet[Origin]]) -> bool:
        """Returns False when the block always leaves (return/raise)."""
        for st in body:
            if not self.stmt(st, env):
                return False
        return True

    def stmt(self, st: ast.stmt, env) -> bool:
        if isinstance(st, ast.Return):
            if st.value is not None:
                self.returns |= self.expr(st.value, env)
            return False
        if isinstance(st, ast.Raise):
            if st.exc is not None:
                self.expr(st.exc, env)
            return False
        if isinstance(st, ast.Expr):
            self.expr(st.value, env)
            return True
        if isinstance(st, ast.Assign):
            v = self.expr(st.value, env)
            for t in st.targets:
                self.assign(t, v, st.value, env, st)
            return True
        if isinstance(st, ast.AnnAssign):
            if st.value is not None:
                self.assign(st.target, self.expr(st.value, env), st.value, env, st)
            return True
        if isinstance(st, ast.AugAssign):
            v = self.expr(st.value, env)
            t = st.target
            if isinstance(t, ast.Name):
                cur = env.get(t.id, frozenset([G]))
                if self._maybe_tensor_name(t.id, cur):
                    self.mutate(cur, st, f"augmented assignment {type(st.op).__name__}")
                    # the name keeps referring to the same (mutated) object
                else:
                    env[t.id] = frozenset([N])
            elif isinstance(t, ast.Subscript):
                base = self.expr(t.value, env)
                if self._maybe_tensor_expr(t.value, base):
                    self.mutate(base, st, "augmented item assignment")
            elif isinstance(t, ast.Attribute):
                base = self.expr(t.value, env)
                cur = self.attr_origins(t, base)
                if self._maybe_tensor_expr(t, cur):
                    self.mutate(cur, st, "augmented attribute assignment")
            return True
        if isinstance(st, ast.If):
            const = self.const_test(st.test, env)
            if const is True:
                self.expr(st.test, env)
                return self.block(st.body, env)
            if const is False:
                return self.block(st.orelse, env)
            self.expr(st.test, env)
            e1, e2 = dict(env), dict(env)
            self.refine(st.test, e1, True)
            self.refine(st.test, e2, False)
            c1 = self.block(st.body, e1)
            c2 = self.block(st.orelse, e2)
            if c1 and c2:
                self.join(env, e1, e2)
            elif c1:
                env.clear()
                env.update(e1)
            elif c2:
                env.clear()
                env.update(e2)
            else:
                return False
            return True
        if isinstance(st, (ast.For, ast.While)):
            if isinstance(st, ast.For):
                it = self.expr(st.iter, env)
            for _ in range(2):
                e1 = dict(env)
                if isinstance(st, ast.For):
                    self.bind_target(st.target, weaken(it) if shared(it) else it, e1)
                else:
                    self.expr(st.test, e1)
                self.block(st.body, e1)
                self.join(env, env, e1)
            self.block(st.orelse, env)
            return True
        if isinstance(st, ast.With):
            for item in st.items:
                v = self.expr(item.context_expr, env)
                if item.optional_vars is not None:
                    self.bind_target(item.optional_vars, v, env)
            return self.block(st.body, env)
        if isinstance(st, ast.Try):
            e0 = dict(env)
            c = self.block(st.body, env)
            outs = [dict(env)] if c else []
            for h in st.handlers:
                eh = dict(e0)
                self.join(eh, eh, env)
                if h.name:
                    eh[h.name] = frozenset([N])
                if self.block(h.body, eh):
                    outs.append(eh)
            if c and st.orelse:
                self.block(st.orelse, outs[0])
            if not outs:
                self.block(st.finalbody, env)
                return False
            env.clear()
            env.update(outs[0])
            for o in outs[1:]:
                self.join(env, env, o)
            return self.block(st.finalbody, env)
        if isinstance(st, ast.Assert):
            self.expr(st.test, env)
            self.refine(st.test, env, True)
            return True
        if isinstance(st, ast.Delete):
            return True
        if isinstance(st, (ast.FunctionDef, ast.ClassDef)):
            if isinstance(st, ast.FunctionDef):
                env[st.name] = frozenset([N])
                self.nested[st.name] = st
            return True
        return True

    def join(self, out, a, b) -> None:
        keys = set(a) | set(b)
        res = {}
        for k in keys:
            res[k] = frozenset(a.get(k, frozenset()) | b.get(k, frozenset()))
        out.clear()
        out.update(res)

    def bind_target(self, t, v: FrozenSet[Origin], env) -> None:
        if isinstance(t, ast.Name):
            env[t.id] = v
        elif isinstance(t, (ast.Tuple, ast.List)):
            for e in t.elts:
                self.bind_target(e.value if isinstance(e, ast.Starred) else e, v, env)

    def assign(self, t, v: FrozenSet[Origin], value_node, env, st) -> None:
        if isinstance(t, ast.Name):
            env[t.id] = v
        elif isinstance(t, (ast.Tuple, ast.List)):
            if isinstance(value_node, (ast.Tuple, ast.List)) and len(value_node.elts) == len(t.elts):
                for a, b in zip(t.elts, value_node.elts):
                    self.assign(a, self.expr(b, env), b, env, st)
            else:
                for e in t.elts:
                    self.bind_target(e.value if isinstance(e, ast.Starred) else e, v, env)
        elif isinstance(t, ast.Subscript):
            base = self.expr(t.value, env)
            if self._maybe_tensor_expr(t.value, base):
                self.mutate(base, st, "item assignment")
        elif isinstance(t, ast.Attribute):
            base = self.expr(t.value, env)
            # attribute store on self / a parameter object: recorded as attribute write (rebinding, not tensor mutation)
            for o in shared(base):
                if o[0] == "C":
                    continue  # rebinding an attribute of a shallow copy does not touch the original
                if o[0] == "S" and o[1] == "":
                    self.effects.append(Effect(S(t.attr, "rebind"), st, f"self.{t.attr} = ..."))
                elif o[0] == "P":
                    self.effects.append(Effect((o[0], o[1], "attr:" + t.attr), st, f"{o[1]}.{t.attr} = ..."))

    # ------------------------------------------------------------------ tests
    def const_test(self, test: ast.expr, env) -> Optional[bool]:
        """Decide tests that only involve specialised flags (inplace / out)."""
        if isinstance(test, ast.Name) and test.id in self.flags:
            return bool(self.flags[test.id])
        if isinstance(test, ast.UnaryOp) and isinstance(test.op, ast.Not):
            v = self.const_test(test.operand, env)
            return None if v is None else not v
        if isinstance(test, ast.Compare) and len(test.ops) == 1 and isinstance(test.left, ast.Name) and test.left.id in self.flags:
            r = test.comparators[0]
            if isinstance(r, ast.Name) and r.id in self.params and self.flags[test.left.id] is None and isinstance(test.ops[0], (ast.Is, ast.IsNot)):
                # ``out is tensor`` with out=None: a required tensor parameter is never None
                return isinstance(test.ops[0], ast.IsNot)
            if isinstance(r, ast.Constant):
                v = self.flags[test.left.id]
                if isinstance(test.ops[0], (ast.Is, ast.Eq)):
                    return v is r.value if r.value is None or isinstance(r.value, bool) else v == r.value
                if isinstance(test.ops[0], (ast.IsNot, ast.NotEq)):
                    return not (v is r.value if r.value is None or isinstance(r.value, bool) else v == r.value)
        return None

    def refine(self, test: ast.expr, env, truth: bool) -> None:
        """Recognised alias guards (each one line of reason):
        - ``a.data_ptr() == b.data_ptr()``: in the false branch a does not share storage start with b -> drop b's origins from a
        - ``a is b`` / ``a is not b``: in the 'not identical' branch drop b's *identity* origins from a
        """
        if isinstance(test, ast.UnaryOp) and isinstance(test.op, ast.Not):
            return self.refine(test.operand, env, not truth)
        if not (isinstance(test, ast.Compare) and len(test.ops) == 1):
            return
        l, r, op = test.left, test.comparators[0], test.ops[0]

        def ptr_name(e):
            if isinstance(e, ast.Call) and isinstance(e.func, ast.Attribute) and e.func.attr == "data_ptr" and isinstance(e.func.value, ast.Name):
                return e.func.value.id
            return None
        a, b = ptr_name(l), ptr_name(r)
        if a and b and isinstance(op, (ast.Eq, ast.NotEq)):
            differs = (not truth) if isinstance(op, ast.Eq) else truth
            if differs:
                ob = env.get(b, frozenset())
                names = {(x[0], x[1]) for x in shared(ob)}
                env[a] = frozenset(x for x in env.get(a, frozenset()) if not (isinstance(x, tuple) and (x[0], x[1]) in names)) or frozenset([F])
            return
        if isinstance(l, ast.Name) and isinstance(r, ast.Name) and isinstance(op, (ast.Is, ast.IsNot)):
            differs = (not truth) if isinstance(op, ast.Is) else truth
            if differs:
                ob = {(x[0], x[1]) for x in shared(env.get(r.id, frozenset())) if x[2] == "id"}
                env[l.id] = frozenset(x for x in env.get(l.id, frozenset())
                                      if not (isinstance(x, tuple) and x[2] == "id" and (x[0], x[1]) in ob)) or frozenset([F])

    # ------------------------------------------------------------------ helpers
    def _maybe_tensor_name(self, name: str, origins) -> bool:
        if origins and origins <= {N}:
            return False
        t = self.tenv.get(name, frozenset())
        if t and self._nontensor_type(t):
            return False
        return True

    def _maybe_tensor_expr(self, node: ast.expr, origins) -> bool:
        if origins and origins <= {N}:
            return False
        t = self.ti.infer(self.fi, node, self.tenv)
        if t and self._nontensor_type(t):
            return False
        return True

    def mutate(self, origins: FrozenSet[Origin], node: ast.AST, op: str, via: str = "") -> None:
        for o in shared(origins):
            self.effects.append(Effect(o, node, op, via))

    def attr_origins(self, node: ast.Attribute, base: FrozenSet[Origin]) -> FrozenSet[Origin]:
        if node.attr in VIEW_ATTRS:
            return weaken(base) if node.attr != "data" else base
        if node.attr in NONTENSOR_ATTRS:
            return frozenset([N])
        out: Set[Origin] = set()
        for o in base:
            if isinstance(o, tuple) and o[0] in ("S", "C") and o[1] == "":
                out.add(S(node.attr))
            elif isinstance(o, tuple):
                out.add((o[0], o[1], "view"))  # attribute of a parameter object: reachable from it
            elif o == N:
                out.add(N)
            elif o == F:
                out.add(F)
            else:
                out.add(G)
        return frozenset(out or [G])

    # ------------------------------------------------------------------ expressions
    def expr(self, e: ast.expr, env) -> FrozenSet[Origin]:
        if isinstance(e, ast.Constant):
            return frozenset([N])
        if isinstance(e, ast.Name):
            if e.id in env:
                return env[e.id]
            return frozenset([N])  # module-level names: functions, classes, constants
        if isinstance(e, ast.Attribute):
            d = dotted(e)
            if d is not None and d.split(".")[0] in ("torch", "F", "nn", "math", "np", "init") and d.split(".")[0] not in env:
                return frozenset([TF])  # a torch/F function object (e.g. ``conv_fn = F.conv1d``): calling it returns fresh memory
            base = self.expr(e.value, env)
            return self.attr_origins(e, base)
        if isinstance(e, ast.Subscript):
            base = self.expr(e.value, env)
            self.expr(e.slice, env) if not isinstance(e.slice, ast.Slice) else None
            if base <= {N}:
                return frozenset([N])
            if base <= {TF, N}:
                return frozenset([TF])
            return weaken(base)
        if isinstance(e, (ast.BinOp,)):
            self.expr(e.left, env)
            self.expr(e.right, env)
            return frozenset([F])
        if isinstance(e, ast.UnaryOp):
            self.expr(e.operand, env)
            return frozenset([F]) if not isinstance(e.op, ast.Not) else frozenset([N])
        if isinstance(e, ast.Compare):
            self.expr(e.left, env)
            for c in e.comparators:
                self.expr(c, env)
            return frozenset([F])
        if isinstance(e, ast.BoolOp):
            out: Set[Origin] = set()
            for v in e.values:
                out |= self.expr(v, env)
            return frozenset(out)
        if isinstance(e, ast.IfExp):
            c = self.const_test(e.test, env)
            self.expr(e.test, env)
            if c is True:
                return self.expr(e.body, env)
            if c is False:
                return self.expr(e.orelse, env)
            return frozenset(self.expr(e.body, env) | self.expr(e.orelse, env))
        if isinstance(e, (ast.Tuple, ast.List, ast.Set)):
            out = set()
            for x in e.elts:
                out |= self.expr(x.value if isinstance(x, ast.Starred) else x, env)
            return frozenset(out or [N])
        if isinstance(e, ast.Dict):
            out = set()
            for v in e.values:
                out |= self.expr(v, env)
            return frozenset(out or [N])
        if isinstance(e, (ast.ListComp, ast.GeneratorExp, ast.SetComp, ast.DictComp)):
            e1 = dict(env)
            for g in e.generators:
                it = self.expr(g.iter, e1)
                self.bind_target(g.target, weaken(it) if shared(it) else it, e1)
                for c in g.ifs:
                    self.expr(c, e1)
            if isinstance(e, ast.DictComp):
                return frozenset(self.expr(e.value, e1))
            return frozenset(self.expr(e.elt, e1))
        if isinstance(e, ast.JoinedStr):
            return frozenset([N])
        if isinstance(e, ast.Lambda):
            return frozenset([N])
        if isinstance(e, ast.NamedExpr):
            v = self.expr(e.value, env)
            self.bind_target(e.target, v, env)
            return v
        if isinstance(e, ast.Starred):
            return self.expr(e.value, env)
        if isinstance(e, ast.Call):
            return self.call(e, env)
        if isinstance(e, (ast.Await, ast.Yield, ast.YieldFrom)):
            if getattr(e, "value", None) is not None:
                v = self.expr(e.value, env)
                if isinstance(e, ast.Yield):
                    self.returns |= v
            return frozenset([G])
        return frozenset([G])

    def call(self, c: ast.Call, env) -> FrozenSet[Origin]:
        args = [self.expr(a.value if isinstance(a, ast.Starred) else a, env) for a in c.args]
        kwargs = {k.arg: self.expr(k.value, env) for k in c.keywords}
        f = c.func
        # out= keyword: the callee writes into that tensor
        if "out" in kwargs and shared(kwargs["out"]):
            k = next(k for k in c.keywords if k.arg == "out")
            if not (isinstance(k.value, ast.Constant) and k.value.value is None):
                self.mutate(kwargs["out"], c, "out= keyword")
        inplace_kw = next((k for k in c.keywords if k.arg == "inplace"), None)
        d = dotted(f)
        # resolved repo callee
        callees = self.ti.resolve_call(self.fi, c, self.tenv)
        if callees:
            res: Set[Origin] = set()
            known = True
            for callee in callees:
                if isinstance(callee, ClassInfo):
                    init = self.prog.find_method(callee, "__init__")
                    if self.ti.is_tensor_class(callee):
                        # DataTensor family: as_tensor(data) — shares storage with the data argument
                        res |= weaken(args[0]) if args else {F}
                    else:
                        res.add(F)
                    if init is not None and init.module.name.startswith("deepali"):
                        self.apply_summary(init, c, [frozenset([F])] + args, kwargs, env, bound=True, ret=False)
                    continue
                bound = callee.cls is not None and not callee.is_static
                recv = None
                if bound:
                    if isinstance(f, ast.Attribute):
                        bt = self.ti.infer(self.fi, f.value, self.tenv)
                        if any(isinstance(t, tuple) and t[0] == "type" for t in bt) and not callee.is_classmethod:
                            bound = False
                        else:
                            recv = self.expr(f.value, env) if not (isinstance(f.value, ast.Call) and dotted(f.value.func) == "super") \
                                else env.get(self.selfname or "", frozenset([G]))
                    else:
                        recv = frozenset([G])
                r = self.apply_summary(callee, c, ([recv] if bound else []) + args, kwargs, env, bound=bound)
                res |= r
            return frozenset(res or [F])
        # method call on a value
        if isinstance(f, ast.Attribute):
            name = f.attr
            base_is_module = d is not None and d.split(".")[0] in ("torch", "F", "np", "math", "nn", "init", "warnings", "re", "os", "sitk", "_sitk", "nib")
            if not base_is_module:
                recv = self.expr(f.value, env)
                if name in INPLACE_METHODS:
                    if self._maybe_tensor_expr(f.value, recv):
                        self.mutate(recv, c, f".{name}()")
                    return recv
                if name in META_INPLACE_METHODS:
                    # shape / stride metadata changed in place: harmless on a view object made here, but the caller's own tensor when
                    # the receiver may still be the very object that was passed in (kind "id")
                    same = frozenset(o for o in shared(recv) if o[2] == "id" and o[0] == "P")
                    if same and name not in ("retain_grad",) and self._maybe_tensor_expr(f.value, recv):
                        self.mutate(same, c, f".{name}() [shape metadata]")
                    return recv
                if name in SAME_OBJECT_METHODS:
                    return recv
                if name in VIEW_METHODS:
                    return weaken(recv) if shared(recv) else recv
                if name in NONTENSOR_METHODS:
                    return frozenset([N])
                if name in FRESH_METHODS:
                    return frozenset([F])
                if name in ("append", "extend", "insert", "update", "add", "pop", "remove", "clear", "setdefault", "sort", "reverse"):
                    return frozenset([N])  # container methods on python containers (not tensors)
                if recv <= {N, F}:
                    return frozenset([F]) if F in recv else frozenset([N])
                # unknown method on a possibly shared value
                if name.endswith("_") and not name.startswith("_"):
                    self.unclassified.add(name)
                    if self._maybe_tensor_expr(f.value, recv):
                        self.mutate(recv, c, f".{name}() (unclassified in-place-looking method)")
                    return recv
                out = set(weaken(recv))
                for a in args:
                    out |= weaken(a)
                return frozenset(out)
            # torch / F / numpy namespace functions
            full = d or name
            short = name
            if short in SAME_OBJECT_FUNCS and args:
                return args[0]
            if short in VIEW_FUNCS and args:
                return weaken(args[0]) if shared(args[0]) else args[0]
            if short == "as_tensor" and args:
                return args[0]
            if short.endswith("_") and not short.startswith("_") and args and d and d.split(".")[0] in ("torch", "F", "init", "nn"):
                self.mutate(args[0], c, f"{full}()")
                return args[0]
            if inplace_kw is not None and args:
                v = inplace_kw.value
                if not (isinstance(v, ast.Constant) and v.value is False):
                    cflag = self.const_test(v, env)
                    if cflag is not False:
                        self.mutate(args[0], c, f"{full}(inplace=...)")
                        return args[0]
            if short in NONTENSOR_FUNCS:
                return frozenset([N])
            return frozenset([F])
        if isinstance(f, ast.Name):
            n = f.id
            if n in ("len", "int", "float", "bool", "str", "isinstance", "hasattr", "callable", "range", "min", "max", "abs", "round",
                     "sum", "any", "all", "repr", "type", "id", "print", "divmod"):
                return frozenset([N])
            if n in ("shallow_copy", "copy") and len(args) == 1:
                # new object whose attributes alias the original's attribute values
                out = set()
                for o in args[0]:
                    if isinstance(o, tuple) and o[0] == "S" and o[1] == "":
                        out.add(("C", "", "id"))
                    elif isinstance(o, tuple):
                        out.add((o[0], o[1], "view"))
                    else:
                        out.add(o)
                return frozenset(out)
            if n in ("tuple", "list", "set", "dict", "zip", "enumerate", "reversed", "sorted", "iter", "next", "map", "filter",
                     "getattr", "cast"):
                out = set()
                for a in args:
                    out |= a
                return frozenset(out or [N])
            if n in ("deepcopy",):
                return frozenset([F])
            if n in self.nested:
                return self.call_nested(self.nested[n], args, kwargs, env, c)
            if n in env:
                v = env[n]
                if v <= {TF, N}:
                    return frozenset([F])
                if n in self.params:
                    # callable parameter supplied by the caller: assumed to return fresh tensors (stated assumption)
                    self.assumed_fresh_callables.add(n)
                    return frozenset([F])
                out = set([F])
                for a in args:
                    out |= weaken(a)
                return frozenset(out)
            return frozenset([F])
        # call of call etc.
        out = set([F])
        for a in args:
            out |= weaken(a)
        return frozenset(out)

    def call_nested(self, fn: ast.FunctionDef, args, kwargs, env, call: ast.Call) -> FrozenSet[Origin]:
        """Inline analysis of a nested function (closure over the current environment)."""
        if self._nest_depth > 3:
            return frozenset([F])
        e1 = dict(env)
        a = fn.args
        pos = [x.arg for x in a.posonlyargs + a.args]
        for i, p in enumerate(pos):
            if i < len(args):
                e1[p] = args[i]
            elif p in kwargs:
                e1[p] = kwargs[p]
            else:
                e1[p] = frozenset([N])
        for p in a.kwonlyargs:
            e1[p.arg] = kwargs.get(p.arg, frozenset([N]))
        saved = self.returns
        self.returns = set()
        self._nest_depth += 1
        try:
            self.block(fn.body, e1)
            out = frozenset(self.returns or [N])
        finally:
            self._nest_depth -= 1
            self.returns = saved
        return out

    def apply_summary(self, callee: FunctionInfo, c: ast.Call, args: List[FrozenSet[Origin]], kwargs, env, bound: bool, ret: bool = True):
        # specialise flags passed as literals
        flags = dict(FLAG_DEFAULTS)
        pos = callee.pos_params
        for i, a in enumerate(c.args):
            j = i + (1 if bound else 0)
            if j < len(pos) and pos[j] in flags and isinstance(a, ast.Constant):
                flags[pos[j]] = a.value
        for k in c.keywords:
            if k.arg in flags:
                if isinstance(k.value, ast.Constant):
                    flags[k.arg] = k.value.value
                else:
                    cf = self.const_test(k.value, env)
                    flags[k.arg] = cf if cf is not None else True  # unknown flag value: assume the in-place arm may run
        summ = self.eng.summary(callee, flags)
        binding: Dict[str, FrozenSet[Origin]] = {}
        for i, a in enumerate(args):
            if i < len(pos):
                binding[pos[i]] = a
            elif callee.node.args.vararg is not None:
                v = callee.node.args.vararg.arg
                binding[v] = frozenset(binding.get(v, frozenset()) | a)
        for k, v in kwargs.items():
            if k is not None:
                binding[k] = v
        selfname = pos[0] if (callee.cls is not None and not callee.is_static and pos) else None

        def translate(o) -> FrozenSet[Origin]:
            if not isinstance(o, tuple):
                return frozenset([o])
            if o[0] == "P":
                src = binding.get(o[1], frozenset([N]))
                return weaken(src) if o[2] != "id" else src
            if o[0] == "S":
                src = binding.get(selfname, frozenset([G])) if selfname else frozenset([G])
                if o[1] == "":
                    return src if o[2] == "id" else weaken(src)
                out = set()
                for s in src:
                    if isinstance(s, tuple) and s[0] in ("S", "C") and s[1] == "":
                        out.add(S(o[1], o[2] if o[2] in ("id", "view") else "view"))
                    elif isinstance(s, tuple):
                        out.add((s[0], s[1], "view"))
                    elif s == F:
                        out.add(F)
                    else:
                        out.add(G)
                return frozenset(out)
            return frozenset([G])
        for e in summ.effects:
            if e.target[2].startswith("attr:") or e.target[2] == "rebind":
                # attribute rebinding on callee's self/param object: propagate as attribute write on the mapped object
                if e.target[0] == "S":
                    src = binding.get(selfname, frozenset()) if selfname else frozenset()
                    for s in shared(src):
                        if s[0] == "C":
                            continue
                        if s[0] == "S" and s[1] == "":
                            self.effects.append(Effect(S(e.target[1], "rebind"), c, e.op, callee.key))
                        elif s[0] == "P":
                            self.effects.append(Effect((s[0], s[1], "attr:" + e.target[1]), c, e.op, callee.key))
                continue
            tgt = translate((e.target[0], e.target[1], "id"))
            for o in shared(tgt):
                self.effects.append(Effect(o, c, e.op, callee.key))
        if not ret:
            return frozenset([F])
        out: Set[Origin] = set()
        for o in summ.returns:
            out |= translate(o)
        return frozenset(out or [F])
