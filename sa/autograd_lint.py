"""E8 companions: structural autograd rules (typestate of tensors that autograd keeps for the backward pass; hook receivers).

E8.saved-inplace — A tensor that is the *result* of an operation whose backward formula reads that result (exp, tanh, sigmoid, sqrt, ...)
must not be modified in place afterwards: forward values stay the same, but ``backward()`` raises "one of the variables needed for
gradient computation has been modified by an inplace operation". The rule follows the value through local names, through branches
(may-analysis) and through resolved repo callees that return such a result.

E8.hook-receiver — forward (pre-)hooks of modules whose shallow copies share the hook table must not be bound to one instance.
"""
from __future__ import annotations

import ast
from typing import Dict, Iterable, List, Optional, Set, Tuple

from .core import Ctx
from .index import AnalysisError, ClassInfo, FunctionInfo, dotted, walk_no_nested

# operations whose autograd formula uses their own output (torch/csrc/autograd derivatives.yaml: "result" appears in the formula)
SAVES_OUTPUT = {"exp", "expm1", "exp2", "tanh", "tan", "sigmoid", "sqrt", "rsqrt", "reciprocal", "softmax", "log_softmax", "relu", "elu",
                "selu", "celu", "norm", "std", "prod", "cumprod", "logsumexp", "logcumsumexp"}
# in-place methods that do not touch values / autograd versions
_NOT_INPLACE = {"requires_grad_", "retain_grad_", "share_memory_", "register_hook_", "rename_", "refine_names_", "set_", "apply_", "detach_"}


def _is_inplace_name(name: str) -> bool:
    return name.endswith("_") and not name.startswith("_") and not name.endswith("__") and name not in _NOT_INPLACE


def _top_op(e: ast.AST) -> Optional[str]:
    """Name of the outermost tensor operation of an expression: ``x.exp()`` / ``torch.exp(x)`` / ``F.softmax(x, 1)``."""
    if isinstance(e, ast.Call):
        f = e.func
        if isinstance(f, ast.Attribute):
            base = dotted(f.value) or ""
            if base in ("torch", "F", "torch.nn.functional", "torch.special") or not base.startswith(("np", "numpy", "math")):
                return f.attr
        if isinstance(f, ast.Name):
            return f.id
    return None


class SavedInplace:
    def __init__(self, ctx: Ctx):
        self.ctx = ctx
        self.summaries: Dict[str, Optional[str]] = {}
        self.in_progress: Set[str] = set()
        self.sites = 0

    # ---- does a call to fi return (on some path) the result of an output-saving operation?
    def returns_saved(self, fi: FunctionInfo) -> Optional[str]:
        if fi.key in self.summaries:
            return self.summaries[fi.key]
        if fi.key in self.in_progress:
            return None
        self.in_progress.add(fi.key)
        res: List[Optional[str]] = [None]
        self._walk(fi, report=None, returns=res)
        self.in_progress.discard(fi.key)
        self.summaries[fi.key] = res[0]
        return res[0]

    def _saving(self, fi: FunctionInfo, e: ast.AST, saved: Dict[str, str], tenv) -> Optional[str]:
        """If the value of ``e`` is (may be) a tensor that autograd saved as an operation's output: a description of that operation."""
        if isinstance(e, ast.Name):
            return saved.get(e.id)
        if isinstance(e, ast.IfExp):
            return self._saving(fi, e.body, saved, tenv) or self._saving(fi, e.orelse, saved, tenv)
        if isinstance(e, ast.Call):
            op = _top_op(e)
            if op in SAVES_OUTPUT:
                return f"{op}() at line {e.lineno}"
            if op is not None and _is_inplace_name(op) and isinstance(e.func, ast.Attribute):
                # x.op_() returns x itself
                return self._saving(fi, e.func.value, saved, tenv)
            try:
                callees = self.ctx.ti.resolve_call(fi, e, tenv)
            except Exception:
                callees = None
            if callees and len(callees) <= 4:
                for g in callees:
                    if isinstance(g, FunctionInfo) and g.module.name.startswith("deepali"):
                        r = self.returns_saved(g)
                        if r:
                            return f"{g.qualname}() -> {r}"
        return None

    def _walk(self, fi: FunctionInfo, report, returns: Optional[List[Optional[str]]]) -> None:
        tenv = self.ctx.ti.env(fi)
        saved: Dict[str, str] = {}

        def visit_expr(e: ast.AST) -> None:
            for n in ast.walk(e):
                if isinstance(n, ast.Call) and isinstance(n.func, ast.Attribute) and _is_inplace_name(n.func.attr):
                    why = self._saving(fi, n.func.value, saved, tenv)
                    self.sites += 1
                    if why and report is not None:
                        report(n, n.func.attr, why)
                if isinstance(n, ast.Call):
                    for kw in n.keywords:
                        if kw.arg == "out" and not (isinstance(kw.value, ast.Constant) and kw.value.value is None):
                            why = self._saving(fi, kw.value, saved, tenv)
                            if why and report is not None:
                                report(n, "out=", why)

        def block(stmts: List[ast.stmt]) -> None:
            for st in stmts:
                stmt(st)

        def stmt(st: ast.stmt) -> None:
            if isinstance(st, (ast.FunctionDef, ast.AsyncFunctionDef, ast.ClassDef)):
                return
            if isinstance(st, ast.Assign):
                visit_expr(st.value)
                why = self._saving(fi, st.value, saved, tenv)
                for tg in st.targets:
                    if isinstance(tg, ast.Name):
                        if why:
                            saved[tg.id] = why
                        else:
                            saved.pop(tg.id, None)
                    else:
                        visit_expr(tg)
                return
            if isinstance(st, ast.AnnAssign) and st.value is not None and isinstance(st.target, ast.Name):
                visit_expr(st.value)
                why = self._saving(fi, st.value, saved, tenv)
                if why:
                    saved[st.target.id] = why
                else:
                    saved.pop(st.target.id, None)
                return
            if isinstance(st, ast.AugAssign):
                visit_expr(st.value)
                if isinstance(st.target, ast.Name) and st.target.id in saved and report is not None:
                    self.sites += 1
                    report(st, f"augmented assignment {type(st.op).__name__}", saved[st.target.id])
                return
            if isinstance(st, ast.Return):
                if st.value is not None:
                    visit_expr(st.value)
                    why = self._saving(fi, st.value, saved, tenv)
                    if why and returns is not None and returns[0] is None:
                        returns[0] = why
                return
            if isinstance(st, ast.If):
                visit_expr(st.test)
                before = dict(saved)
                block(st.body)
                after_body = dict(saved)
                saved.clear()
                saved.update(before)
                block(st.orelse)
                for k, v in after_body.items():  # may-analysis: saved on either path
                    saved.setdefault(k, v)
                return
            if isinstance(st, (ast.For, ast.AsyncFor, ast.While)):
                if isinstance(st, ast.While):
                    visit_expr(st.test)
                else:
                    visit_expr(st.iter)
                for _ in range(2):  # loop-carried values
                    block(st.body)
                block(st.orelse)
                return
            if isinstance(st, (ast.With, ast.AsyncWith)):
                for it in st.items:
                    visit_expr(it.context_expr)
                block(st.body)
                return
            if isinstance(st, ast.Try):
                block(st.body)
                for h in st.handlers:
                    block(h.body)
                block(st.orelse)
                block(st.finalbody)
                return
            for ch in ast.iter_child_nodes(st):
                if isinstance(ch, ast.expr):
                    visit_expr(ch)
        block(fi.node.body)


_CONTROL = '''
import torch

def bad_local(x):
    y = x.sub(1).tanh().exp()
    y = y.reciprocal_()
    return y

def bad_branch(x, flag):
    y = x
    if flag:
        y = torch.sqrt(x)
    return y.add_(1)

def fine(x):
    y = x.exp().mul(2)
    y.add_(1)
    z = x.exp()
    z = z + 1
    z.mul_(2)
    return y, z
'''


def saved_inplace(ctx: Ctx, modules: Iterable[str], rule: str = "E8.saved-inplace") -> None:
    ctx.rule(rule, "no in-place operation (method ending in '_', augmented assignment, out=) is applied to a tensor that is the result of "
                   "an operation whose derivative formula reads its own output (exp, tanh, sigmoid, sqrt, rsqrt, reciprocal, softmax, "
                   "norm, prod, ...) — followed through local names, either branch of a conditional, and resolved repo callees that return "
                   "such a result: the forward value is unchanged but backward() raises; the matcher must fire on its own examples")
    # positive control on a synthetic module
    from .index import Program
    import os
    import tempfile
    probe = ast.parse(_CONTROL)
    hits = []
    for fn in probe.body:
        if isinstance(fn, ast.FunctionDef):
            hits.append((fn.name, _probe_function(fn)))
    if [(n, bool(h)) for n, h in hits] != [("bad_local", True), ("bad_branch", True), ("fine", False)]:
        raise AnalysisError(f"{rule}: positive control not recognised as expected: {hits}")
    eng = SavedInplace(ctx)
    prog = ctx.prog
    n = 0
    for mod in modules:
        if mod not in prog.modules:
            raise AnalysisError(f"module vanished: {mod}")
        mi = prog.modules[mod]
        funcs = list(mi.functions.values()) + [m for c in mi.classes.values() for m in c.methods.values()]
        for fi in funcs:
            if fi.overloads and fi.node in fi.overloads:
                continue
            found: List[Tuple[ast.AST, str, str]] = []
            eng._walk(fi, report=lambda node, op, why: found.append((node, op, why)), returns=None)
            n += 1
            ctx.ob(rule, fi.key, not found)
            seen = set()
            for node, op, why in found:
                text = " ".join(ast.unparse(node).split())[:70]
                if text in seen:
                    continue
                seen.add(text)
                ctx.report(rule, fi, f"op={op} expr={text}",
                           f"{fi.qualname}(): in-place {op} on a tensor that autograd saved as the output of {why}: "
                           f"backward() through this value raises (modified by an inplace operation)", node=node)
    ctx.extra["saved_inplace"] = {"functions": n, "inplace_sites_examined": eng.sites, "summaries_returning_saved_output":
                                  sorted(k for k, v in eng.summaries.items() if v)}
    ctx.floor(rule, 100)


def _probe_function(fn: ast.FunctionDef) -> List[str]:
    """The intraprocedural part of the rule on a bare AST function (positive control)."""
    class _FI:  # minimal stand-in
        pass

    class _Eng(SavedInplace):
        def __init__(self):
            self.summaries, self.in_progress, self.sites = {}, set(), 0

        def _saving(self, fi, e, saved, tenv):
            if isinstance(e, ast.Name):
                return saved.get(e.id)
            if isinstance(e, ast.Call):
                op = _top_op(e)
                if op in SAVES_OUTPUT:
                    return op
                if op is not None and _is_inplace_name(op) and isinstance(e.func, ast.Attribute):
                    return self._saving(fi, e.func.value, saved, tenv)
            return None

        def _walk(self, fi, report, returns):
            class _TI:
                @staticmethod
                def env(_):
                    return {}
            self.ctx = type("C", (), {"ti": _TI})()
            SavedInplace._walk(self, fi, report, returns)
    fi = _FI()
    fi.node = fn
    out: List[str] = []
    _Eng()._walk(fi, report=lambda node, op, why: out.append(f"{op}<-{why}"), returns=None)
    return out


# --------------------------------------------------------------------------------------------------- hook receivers
def hook_receiver(ctx: Ctx, modules: Iterable[str], rule: str = "E8.hook-receiver") -> None:
    ctx.rule(rule, "a function registered with register_forward_pre_hook / register_forward_hook on self must not be bound to that "
                   "instance (an instance method self.f, or a lambda / nested function using self): the shallow copies made by "
                   "inverse(), condition(), grid(g), data(p) share the hook table, so a bound hook would refresh the original's buffers "
                   "while the copy's own buffered displacement stays stale (its graph never sees the current parameters); hooks are "
                   "static functions receiving the module they are called for")
    prog = ctx.prog
    n = 0
    for mod in modules:
        mi = prog.modules[mod]
        for ci in mi.classes.values():
            for m in ci.methods.values():
                for node in walk_no_nested(m.node):
                    if not (isinstance(node, ast.Call) and isinstance(node.func, ast.Attribute)
                            and node.func.attr in ("register_forward_pre_hook", "register_forward_hook")
                            and isinstance(node.func.value, ast.Name) and node.func.value.id == "self" and node.args):
                        continue
                    n += 1
                    arg = node.args[0]
                    bad = None
                    if isinstance(arg, ast.Attribute) and isinstance(arg.value, ast.Name) and arg.value.id == "self":
                        target = prog.find_method(ci, arg.attr)
                        if target is None:
                            bad = f"self.{arg.attr} is not a method of the class (instance attribute?)"
                        elif not target.is_static:
                            bad = f"self.{arg.attr} is a bound {'class' if target.is_classmethod else 'instance'} method"
                        else:
                            ctx.fn(target)
                    elif isinstance(arg, ast.Lambda):
                        if any(isinstance(x, ast.Name) and x.id == "self" for x in ast.walk(arg.body)):
                            bad = "lambda capturing self"
                    elif isinstance(arg, ast.Name):
                        inner = [x for x in walk_no_nested(m.node) if isinstance(x, ast.FunctionDef) and x.name == arg.id]
                        if inner and any(isinstance(x, ast.Name) and x.id == "self" for x in ast.walk(inner[0])):
                            bad = f"nested function {arg.id} capturing self"
                    ctx.ob(rule, f"{m.key}:{ast.unparse(arg)}", bad is None, {"hook": ast.unparse(arg)})
                    if bad:
                        ctx.report(rule, m, f"hook={ast.unparse(arg)}",
                                   f"{m.qualname}(): the hook registered on self is bound to this instance ({bad}); shallow copies share "
                                   f"the hook table and would update the original instead of themselves", node=node)
    ctx.floor(rule, 1)


# ------------------------------------------------------------------------------------------------ refresh-before-read in update()
# self-methods that look at the parameter *slot* (its type / presence), never at predicted values: calling them before the refresh is harmless
_SLOT_ONLY = {"has_parameters": "isinstance test on self.params", "parameters": "nn.Module iterator", "named_parameters": "nn.Module iterator",
              "extra_repr": "string", "clear_buffers": "removes derived buffers"}


def _reads_parameters(prog, ci, meth_name: str, seen: Set[str]) -> bool:
    """Does self.<meth_name>() — resolved in the concrete class — read the current parameters (self.data() / the 'p' buffer / self.params),
    directly or through other methods of self?"""
    if meth_name in seen or meth_name in _SLOT_ONLY:
        return False
    seen.add(meth_name)
    fi = prog.find_method(ci, meth_name)
    if fi is None:
        return False
    if meth_name in ("data", "_data"):
        return True
    for node in walk_no_nested(fi.node):
        if isinstance(node, ast.Attribute) and isinstance(node.value, ast.Name) and node.value.id == "self" and node.attr in ("p", "params"):
            return True
        if isinstance(node, ast.Call) and isinstance(node.func, ast.Name) and node.func.id == "getattr" and len(node.args) >= 2 \
                and isinstance(node.args[0], ast.Name) and node.args[0].id == "self" and isinstance(node.args[1], ast.Constant) \
                and node.args[1].value in ("p", "params"):
            return True
        if isinstance(node, ast.Call) and isinstance(node.func, ast.Attribute) and isinstance(node.func.value, ast.Name) \
                and node.func.value.id == "self" and _reads_parameters(prog, ci, node.func.attr, seen):
            return True
    return False


def update_order(ctx: Ctx, modules: Iterable[str], rule: str = "E8.update-order") -> None:
    ctx.rule(rule, "typestate of the predicted-parameter buffer: ParametricTransform.update() is what calls the parameter-predicting callable "
                   "(or reads the linked transform) and stores the result as buffer 'p'. In the update() of every model built on it, each "
                   "statement that evaluates the model from its parameters (a self-method that reaches self.data() / 'p' / self.params) comes "
                   "*after* the super().update() call on every path — evaluated before, the buffers (and their autograd graph) belong to the "
                   "previous prediction")
    prog = ctx.prog
    base = prog.cls("deepali.spatial.parametric", "ParametricTransform")
    bu = prog.find_method(base, "update")
    ctx.require(bu is not None and any(isinstance(n, ast.Call) and isinstance(n.func, ast.Attribute) and n.func.attr == "register_buffer"
                                       and n.args and isinstance(n.args[0], ast.Constant) and n.args[0].value == "p"
                                       for n in ast.walk(bu.node)),
                "positive control failed: ParametricTransform.update() no longer registers the buffer 'p' (anchor of E8.update-order)")
    ctx.fn(bu)
    n = 0
    for mod in modules:
        mi = prog.modules[mod]
        for ci in mi.classes.values():
            m = ci.methods.get("update")
            if m is None or ci is base or not any(c is base for c in prog.mro(ci)):
                continue
            body = [st for st in m.node.body if not (isinstance(st, ast.Expr) and isinstance(st.value, ast.Constant))]

            def has_super_update(st):
                return any(isinstance(x, ast.Call) and isinstance(x.func, ast.Attribute) and x.func.attr == "update"
                           and isinstance(x.func.value, ast.Call) and isinstance(x.func.value.func, ast.Name) and x.func.value.func.id == "super"
                           for x in ast.walk(st))
            idx = [i for i, st in enumerate(body) if has_super_update(st)]
            if not idx:
                continue  # does not chain to the base update: nothing to order (E8.gradient-path covers its value path)
            ctx.fn(m)
            first = idx[0]
            readers = []
            for i, st in enumerate(body):
                for x in ast.walk(st):
                    if isinstance(x, ast.Call) and isinstance(x.func, ast.Attribute) and isinstance(x.func.value, ast.Name) \
                            and x.func.value.id == "self" and x.func.attr != "register_buffer" and _reads_parameters(prog, ci, x.func.attr, set()):
                        readers.append((i, x))
            if not readers:
                continue
            for i, call in readers:
                n += 1
                ok = i > first or (i == first and False)
                ctx.ob(rule, f"{m.key}:{ast.unparse(call)[:60]}", ok, {"statement": i, "super_update_at": first})
                if not ok:
                    ctx.report(rule, m, f"class={ci.name} reader={ast.unparse(call.func)}",
                               f"{m.qualname}(): {ast.unparse(call)[:80]} evaluates the model from its parameters before super().update() has "
                               f"refreshed the predicted / linked parameter buffer 'p': the buffered field is computed from the previous "
                               f"prediction and carries its (stale) autograd graph", node=call)
    ctx.floor(rule, 4)


# ---- E8.scratch-reuse -------------------------------------------------------------------------------------------------------------
_SAVES_OPERANDS = {"matmul", "mm", "bmm", "mv", "dot", "einsum", "mul", "div", "true_divide", "pow", "addcmul", "addcdiv", "baddbmm", "addmm",
                   "conv1d", "conv2d", "conv3d", "conv_transpose1d", "conv_transpose2d", "conv_transpose3d", "linear", "bilinear", "cross",
                   "grid_sample", "atan2", "hypot", "lerp", "where_not"}
_ALLOCATORS = {"empty", "new_empty", "zeros", "new_zeros", "ones", "new_ones", "full", "new_full", "empty_like", "zeros_like", "ones_like",
               "full_like", "eye", "clone"}

_SCRATCH_CONTROL = '''
import torch

def bad_reuse(matrix, angles, D):
    rot = matrix.new_empty(matrix.shape[:-1] + (D,))
    rotation = None
    for i in range(3):
        rot[..., 0, 0] = angles[i].cos()
        rot[..., 0, 1] = -angles[i].sin()
        rotation = rot.clone() if i == 0 else torch.matmul(rotation, rot)
    return rotation

def fine_fresh(matrix, angles, D):
    rotation = None
    for i in range(3):
        rot = matrix.new_empty(matrix.shape[:-1] + (D,))
        rot[..., 0, 0] = angles[i].cos()
        rotation = rot if i == 0 else torch.matmul(rotation, rot)
    return rotation

def fine_accumulator(xs):
    out = torch.zeros(3)
    for x in xs:
        out += x * 2
    return out
'''


def _scratch_reuse_sites(fn: ast.AST) -> List[Tuple[ast.AST, str, str]]:
    """(node, name, op): `name` is bound to a freshly allocated tensor before a loop, the loop body writes it in place (subscript store,
    method ending in '_', augmented assignment) *and* passes it as an operand to an operation that keeps its operands for the backward pass."""
    out: List[Tuple[ast.AST, str, str]] = []

    def allocated(e: ast.AST) -> bool:
        return isinstance(e, ast.Call) and isinstance(e.func, (ast.Attribute, ast.Name)) and \
            (e.func.attr if isinstance(e.func, ast.Attribute) else e.func.id) in _ALLOCATORS

    def scan(body: List[ast.stmt], scratch: Set[str]) -> None:
        scratch = set(scratch)
        for st in body:
            if isinstance(st, (ast.FunctionDef, ast.AsyncFunctionDef, ast.ClassDef)):
                continue
            if isinstance(st, ast.Assign) and len(st.targets) == 1 and isinstance(st.targets[0], ast.Name):
                if allocated(st.value):
                    scratch.add(st.targets[0].id)
                else:
                    scratch.discard(st.targets[0].id)
            if isinstance(st, (ast.For, ast.While)):
                inner = list(st.body)
                rebound = {t.id for s_ in ast.walk(ast.Module(body=inner, type_ignores=[])) if isinstance(s_, ast.Assign)
                           for t in s_.targets if isinstance(t, ast.Name)}
                written: Dict[str, ast.AST] = {}
                used: Dict[str, Tuple[ast.AST, str]] = {}
                for n_ in ast.walk(ast.Module(body=inner, type_ignores=[])):
                    if isinstance(n_, (ast.Assign, ast.AugAssign)):
                        for t in (n_.targets if isinstance(n_, ast.Assign) else [n_.target]):
                            if isinstance(t, ast.Subscript) and isinstance(t.value, ast.Name):
                                written.setdefault(t.value.id, n_)
                            if isinstance(n_, ast.AugAssign) and isinstance(t, ast.Name):
                                written.setdefault(t.id, n_)
                    if isinstance(n_, ast.Call) and isinstance(n_.func, ast.Attribute):
                        if _is_inplace_name(n_.func.attr) and isinstance(n_.func.value, ast.Name):
                            written.setdefault(n_.func.value.id, n_)
                        if n_.func.attr in _SAVES_OPERANDS:
                            ops = list(n_.args) + [k.value for k in n_.keywords] + ([n_.func.value] if not (isinstance(n_.func.value, ast.Name) and n_.func.value.id in ("torch", "F")) else [])
                            for a in ops:
                                if isinstance(a, ast.Name):
                                    used.setdefault(a.id, (n_, n_.func.attr))
                    if isinstance(n_, ast.BinOp) and isinstance(n_.op, (ast.MatMult, ast.Mult, ast.Div)):
                        for a in (n_.left, n_.right):
                            if isinstance(a, ast.Name):
                                used.setdefault(a.id, (n_, type(n_.op).__name__))
                for name in sorted(scratch):
                    if name in rebound or name not in written or name not in used:
                        continue
                    # an accumulator that is only ever the in-place *target* (out += x * w) is not an operand
                    if isinstance(written[name], ast.AugAssign) and isinstance(written[name].target, ast.Name):
                        continue
                    out.append((used[name][0], name, used[name][1]))
                scan(inner, scratch - rebound)
                scan(list(st.orelse), scratch)
            else:
                for fld in ("body", "orelse", "finalbody"):
                    sub = getattr(st, fld, None)
                    if isinstance(sub, list) and sub and isinstance(sub[0], ast.stmt):
                        scan(sub, scratch)
                for h in getattr(st, "handlers", []) or []:
                    scan(h.body, scratch)
    scan(list(fn.body), set())
    return out


def scratch_reuse(ctx: Ctx, modules: Iterable[str], rule: str = "E8.scratch-reuse") -> None:
    ctx.rule(rule, "a tensor allocated before a loop (empty / new_empty / zeros / clone ...) and not rebound inside it is not both written in place in "
                   "the loop body (item assignment, method ending in '_', augmented assignment) and handed to an operation that keeps its operands "
                   "for the backward pass (matmul family, mul, div, pow, conv, ...): the operand saved in one iteration would be overwritten by the "
                   "next one — forward values are unchanged, backward() raises. Expected count on the pinned tree: zero; the matcher must fire on "
                   "its own example (a scratch rotation matrix reused across the factors of an Euler product) and stay silent on a per-iteration "
                   "allocation and on an accumulator")
    probe = ast.parse(_SCRATCH_CONTROL)
    hits = [(fn.name, bool(_scratch_reuse_sites(fn))) for fn in probe.body if isinstance(fn, ast.FunctionDef)]
    if hits != [("bad_reuse", True), ("fine_fresh", False), ("fine_accumulator", False)]:
        raise AnalysisError(f"{rule}: positive control not recognised as expected: {hits}")
    prog = ctx.prog
    n = loops = 0
    for mod in modules:
        if mod not in prog.modules:
            raise AnalysisError(f"module vanished: {mod}")
        mi = prog.modules[mod]
        funcs = list(mi.functions.values()) + [m for c in mi.classes.values() for m in c.methods.values()]
        for fi in funcs:
            if fi.overloads and fi.node in fi.overloads:
                continue
            n += 1
            loops += sum(isinstance(x, (ast.For, ast.While)) for x in ast.walk(fi.node))
            sites = _scratch_reuse_sites(fi.node)
            ctx.ob(rule, fi.key, not sites)
            for node, name, op in sites:
                ctx.report(rule, fi, f"scratch={name} op={op}",
                           f"{fi.qualname}(): '{name}' is allocated once before the loop, overwritten in place in every iteration and passed to {op} "
                           f"(which keeps it for the backward pass): backward() raises 'modified by an inplace operation'", node=node)
    ctx.extra["scratch_reuse"] = {"functions": n, "loops_examined": loops}
    ctx.floor(rule, 100)
