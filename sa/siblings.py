"""E7: sibling / pairing / forwarding rules."""
from __future__ import annotations

import ast
from typing import Callable, Dict, Iterable, List, Optional, Sequence, Set, Tuple

from .core import Ctx
from .index import AnalysisError, ClassInfo, FunctionInfo, dotted, walk_no_nested


# ----------------------------------------------------------------------------- helpers
def bind_call(callee: FunctionInfo, call: ast.Call, bound_method: bool) -> Tuple[Dict[str, ast.expr], bool]:
    """Map callee parameter names to argument expressions. Returns (binding, has_star)."""
    pos = callee.pos_params
    if bound_method and pos:
        pos = pos[1:]
    out: Dict[str, ast.expr] = {}
    star = False
    for i, a in enumerate(call.args):
        if isinstance(a, ast.Starred):
            star = True
            break
        if i < len(pos):
            out[pos[i]] = a
    for k in call.keywords:
        if k.arg is None:
            star = True
        else:
            out[k.arg] = k.value
    return out, star


def is_bound(ctx: Ctx, fi: FunctionInfo, call: ast.Call, callee: FunctionInfo) -> bool:
    if callee.cls is None or callee.is_static:
        return False
    if isinstance(call.func, ast.Attribute):
        bt = ctx.ti.infer(fi, call.func.value)
        if any(isinstance(t, tuple) and t[0] == "type" for t in bt) and not callee.is_classmethod:
            return False
    return True


def resolve_unique(ctx: Ctx, fi: FunctionInfo, call: ast.Call) -> Optional[FunctionInfo]:
    r = ctx.ti.resolve_call(fi, call)
    if not r or len(r) != 1:
        return None
    c = r[0]
    if isinstance(c, ClassInfo):
        return ctx.prog.find_method(c, "__init__")
    return c


def names_in(e: ast.AST) -> Set[str]:
    return {n.id for n in ast.walk(e) if isinstance(n, ast.Name)}


def self_attrs_in(e: ast.AST, selfname: str = "self") -> Set[str]:
    return {n.attr for n in ast.walk(e) if isinstance(n, ast.Attribute) and isinstance(n.value, ast.Name)
            and n.value.id == selfname}


def stored_options(ctx: Ctx, ci: ClassInfo) -> Dict[str, Set[str]]:
    """Instance attributes assigned in any __init__ of the MRO from constructor parameters: attr -> param names."""
    out: Dict[str, Set[str]] = {}
    for c in ctx.prog.mro(ci):
        init = c.methods.get("__init__")
        if init is None or not init.pos_params:
            continue
        s = init.pos_params[0]
        params = set(init.params) - {s}
        for n in walk_no_nested(init.node):
            if isinstance(n, ast.Assign):
                for t in n.targets:
                    if isinstance(t, ast.Attribute) and isinstance(t.value, ast.Name) and t.value.id == s:
                        src = names_in(n.value) & params
                        if src:
                            out.setdefault(t.attr, set()).update(src)
    return out


# ----------------------------------------------------------------------------- wrapper forward
def wrapper_forward(ctx: Ctx, classes: Iterable[ClassInfo], methods: Sequence[str] = ("forward",),
                    rule: str = "E7.wrapper-forward") -> None:
    """A Module wrapper that stores constructor option X must pass self.X to the functional it wraps when that
    functional has a parameter X."""
    ctx.rule(rule, "for each wrapper class: every call in forward() to a uniquely resolved repo function g — for every "
                   "constructor option stored as self.X with g having a parameter X: the call binds X to an expression that reads "
                   "self.X; and no keyword k is bound to a stored option self.Y (Y != k) when g also has parameter Y (role swap)")
    prog = ctx.prog
    for ci in classes:
        opts = stored_options(ctx, ci)
        for mname in methods:
            m = prog.find_method(ci, mname)
            if m is None or m.cls is None:
                continue
            # analyse the method in the context of class ci (options of ci's MRO)
            ctx.fn(m)
            s = m.pos_params[0] if m.pos_params else "self"
            env_alias = _local_self_aliases(m, s)
            for call in walk_no_nested(m.node):
                if not isinstance(call, ast.Call):
                    continue
                g = resolve_unique(ctx, m, call)
                if g is None or g.cls is not None and g.cls in prog.mro(ci) and g.name == mname:
                    continue
                if g.cls is not None and g.name != "__init__":
                    # method calls on other objects are not the wrapped functional
                    continue
                if g.cls is not None:
                    continue
                binding, star = bind_call(g, call, False)
                gparams = set(g.params)
                for X in sorted(set(opts) & gparams):
                    inst = f"{ci.key}.{mname}->{g.qualname}:{X}"
                    if X in binding:
                        reads = self_attrs_in(binding[X], s) | {a for nm in names_in(binding[X]) for a in env_alias.get(nm, ())}
                        ok = X in reads
                        ctx.ob(rule, inst, ok, {"call": ast.unparse(call)[:120], "option": X})
                        if not ok:
                            ctx.report(rule, m, f"class={ci.name} callee={g.qualname} option={X} bound_to={ast.unparse(binding[X])[:40]}",
                                       f"{ci.name}.{mname} passes {X}={ast.unparse(binding[X])[:40]} to {g.qualname} instead of the stored option self.{X}",
                                       call)
                    elif star:
                        ctx.ob(rule, inst, True, None, nontrivial=False)
                    else:
                        ctx.ob(rule, inst, False, {"call": ast.unparse(call)[:120], "option": X})
                        ctx.report(rule, m, f"class={ci.name} callee={g.qualname} option={X} missing",
                                   f"{ci.name} stores constructor option '{X}' but {mname}() does not pass it to {g.qualname}, "
                                   f"which falls back to its default", call)
                # role swap
                for k, v in binding.items():
                    if isinstance(v, ast.Attribute) and isinstance(v.value, ast.Name) and v.value.id == s:
                        Y = v.attr
                        if Y != k and Y in opts and Y in gparams and k in opts:
                            ctx.report(rule, m, f"class={ci.name} callee={g.qualname} keyword={k} bound_to=self.{Y}",
                                       f"{ci.name}.{mname} binds {k}=self.{Y} although {g.qualname} has its own parameter '{Y}'", call)


def _local_self_aliases(m: FunctionInfo, s: str) -> Dict[str, Set[str]]:
    """local name -> set of self attributes it was assigned from (one level)."""
    out: Dict[str, Set[str]] = {}
    for n in walk_no_nested(m.node):
        if isinstance(n, ast.Assign) and len(n.targets) == 1 and isinstance(n.targets[0], ast.Name):
            a = self_attrs_in(n.value, s)
            if a:
                out.setdefault(n.targets[0].id, set()).update(a)
    return out


# ----------------------------------------------------------------------------- ctor forward
def ctor_forward(ctx: Ctx, classes: Iterable[ClassInfo], rule: str = "E7.ctor-forward") -> None:
    ctx.rule(rule, "a constructor parameter that the base-class constructor also accepts must be used: passed on to "
                   "super().__init__ or consumed in the body; a parameter never referenced is silently dropped")
    prog = ctx.prog
    for ci in classes:
        init = ci.methods.get("__init__")
        if init is None or not init.pos_params:
            continue
        base_init = prog.find_method(ci, "__init__", after=ci)
        if base_init is None:
            continue
        ctx.fn(init)
        used = names_in(init.node)
        bparams = set(base_init.params)
        for X in init.params[1:]:
            if X in bparams:
                ok = X in used
                ctx.ob(rule, f"{ci.key}:{X}", ok, None)
                if not ok:
                    ctx.report(rule, init, f"param={X} base={base_init.qualname}",
                               f"{ci.name}.__init__ accepts '{X}' (also a parameter of {base_init.qualname}) but never uses it: "
                               f"the option is silently dropped", init.node)


# ----------------------------------------------------------------------------- same-name delegate
def delegate_forward(ctx: Ctx, fis: Iterable[FunctionInfo], rule: str = "E7.delegate-forward",
                     same_name_only: bool = True) -> None:
    ctx.rule(rule, "a method that delegates to a same-named method of another class must hand over each of its own "
                   "parameters that the target also takes, bound to an expression derived from that parameter")
    for fi in fis:
        ctx.fn(fi)
        own = [p for p in fi.params if p not in ("self", "cls")]
        for call in walk_no_nested(fi.node):
            if not isinstance(call, ast.Call):
                continue
            g = resolve_unique(ctx, fi, call)
            if g is None or g == fi:
                continue
            if same_name_only and g.name != fi.name:
                continue
            if g.cls is None or fi.cls is None or g.cls == fi.cls:
                continue
            binding, star = bind_call(g, call, is_bound(ctx, fi, call, g))
            gparams = set(g.params)
            for X in own:
                if X not in gparams:
                    continue
                inst = f"{fi.key}->{g.key}:{X}"
                if X in binding:
                    ok = X in names_in(binding[X])
                    ctx.ob(rule, inst, ok, {"call": ast.unparse(call)[:100]})
                    if not ok:
                        ctx.report(rule, fi, f"callee={g.qualname} param={X} bound_to={ast.unparse(binding[X])[:40]}",
                                   f"{fi.qualname} binds '{X}' of {g.qualname} to {ast.unparse(binding[X])[:40]} instead of its own '{X}'", call)
                elif star:
                    ctx.ob(rule, inst, True, None, nontrivial=False)
                else:
                    ctx.ob(rule, inst, False, {"call": ast.unparse(call)[:100]})
                    ctx.report(rule, fi, f"callee={g.qualname} param={X} missing",
                               f"{fi.qualname} does not pass its parameter '{X}' on to {g.qualname}", call)


# ----------------------------------------------------------------------------- pair rule
def pair_calls(ctx: Ctx, fi: FunctionInfo, pred_a: Callable[[FunctionInfo], bool], pred_b: Callable[[FunctionInfo], bool],
               rule: str, ignore: Set[str] = frozenset(), family: Optional[Dict[str, Set[str]]] = None,
               require_both: bool = True, only: Optional[Set[str]] = None) -> Tuple[int, int]:
    """Two call families in one function (e.g. data path / grid path) must bind every shared option name to the
    same expression. Returns (#a calls, #b calls)."""
    A: List[Tuple[ast.Call, FunctionInfo, Dict[str, ast.expr]]] = []
    B: List[Tuple[ast.Call, FunctionInfo, Dict[str, ast.expr]]] = []
    ctx.fn(fi)
    for call in walk_no_nested(fi.node):
        if not isinstance(call, ast.Call):
            continue
        g = resolve_unique(ctx, fi, call)
        if g is None:
            continue
        binding, _ = bind_call(g, call, is_bound(ctx, fi, call, g))
        if pred_a(g):
            A.append((call, g, binding))
        elif pred_b(g):
            B.append((call, g, binding))
    for ca, ga, ba in A:
        for cb, gb, bb in B:
            if family is not None:
                allowed = family.get(ga.name)
                ok = allowed is not None and gb.name in allowed
                ctx.ob(rule + ".family", f"{fi.key}:{ga.name}<->{gb.name}", ok, {"data_op": ga.key, "grid_op": gb.key})
                if not ok:
                    ctx.report(rule + ".family", fi, f"data_op={ga.name} grid_op={gb.name}",
                               f"{fi.qualname} pairs tensor operation {ga.name} with grid operation {gb.name}; "
                               f"expected one of {sorted(allowed) if allowed else '∅'}", cb)
            shared = (set(ga.params) & set(gb.params)) - {"self", "cls"} - set(ignore)
            if only is not None:
                shared &= set(only)
            for X in sorted(shared):
                inst = f"{fi.key}:{ga.name}/{gb.name}:{X}"
                ea, eb = ba.get(X), bb.get(X)
                if ea is None and eb is None:
                    # both on their defaults: compare defaults
                    da, db = ga.param_defaults().get(X), gb.param_defaults().get(X)
                    same = (da is None and db is None) or (da is not None and db is not None and ast.unparse(da) == ast.unparse(db))
                    ctx.ob(rule, inst, True, None, nontrivial=False)
                    continue
                if ea is None or eb is None:
                    which = gb if eb is None else ga
                    ctx.ob(rule, inst, False, {"a": ast.unparse(ca)[:90], "b": ast.unparse(cb)[:90]})
                    ctx.report(rule, fi, f"option={X} missing_in={which.name}",
                               f"{fi.qualname}: option '{X}' is passed to {(ga if eb is None else gb).name} but not to {which.name}; "
                               f"data and grid would be computed with different settings", cb if eb is None else ca)
                    continue
                same = ast.unparse(ea) == ast.unparse(eb) or (names_in(ea) == names_in(eb) and bool(names_in(ea)))
                ctx.ob(rule, inst, same, {"option": X, "value": ast.unparse(ea)[:60]})
                if not same:
                    ctx.report(rule, fi, f"option={X} a={ast.unparse(ea)[:30]} b={ast.unparse(eb)[:30]}",
                               f"{fi.qualname}: option '{X}' is {ast.unparse(ea)[:40]} for {ga.name} but {ast.unparse(eb)[:40]} for {gb.name}", cb)
    return len(A), len(B)


# ----------------------------------------------------------------------------- option forwarding (cross-cutting)
# Options whose meaning is the same in caller and callee (conventions, flags, scalars). Per-axis quantities whose axis order may
# legitimately differ between tensor and grid code (size, kernel_size, margin, ...) and plumbing (dtype, device) are not listed.
FORWARDED_OPTIONS = {"align_corners", "link", "update_buffers", "inverse", "steps", "scale", "stride", "spacing", "sigma", "dims",
                     "reduction", "mask", "padding", "mode", "sampling", "min_size", "levels", "norm", "weight", "alpha", "beta", "order",
                     "homogeneous", "channels_last", "vectors", "to_grid", "to_axes", "axes", "compress", "derivative", "which", "epsilon",
                     "normalize", "binarize", "decimals", "transpose", "kernel"}

# (caller, callee, option) -> reason: sites confirmed by reading where the option legitimately does not travel as an argument
FORWARD_EXCEPTIONS: Dict[Tuple[str, str, str], str] = {
    ("deepali.core.cube:Cube.apply_transform", "deepali.core.linalg:homogeneous_transform", "vectors"):
        "vectors=True is consumed by self.transform(..., vectors=...), which returns the translation-free matrix",
    ("deepali.core.grid:Grid.apply_transform", "deepali.core.linalg:homogeneous_transform", "vectors"):
        "vectors=True is consumed by self.transform(..., vectors=...), which returns the translation-free matrix",
    ("deepali.core.flow:flow_derivatives", "deepali.core.image:spatial_derivatives", "order"):
        "flow_derivatives resolves (which, order) to explicit keys and passes which=unique_keys",
    ("deepali.core.image:spatial_derivatives", "deepali.core.image:finite_differences", "order"):
        "the derivative order is unrolled into repeated first-order differences along the key's axes",
    ("deepali.core.image:spatial_derivatives", "deepali.core.image:conv", "stride"):
        "stride is the B-spline control point stride (bspline mode only), not a convolution stride",
    ("deepali.core.image:spatial_derivatives", "deepali.core.image:conv1d", "stride"):
        "stride is the B-spline control point stride (bspline mode only), not a convolution stride",
    ("deepali.modules.flow:ExpFlow.forward", "deepali.core.flow:expv", "inverse"):
        "inverse is folded into the sign of the scale handed to expv (decided by C11)",
    ("deepali.core.bspline:evaluate_cubic_bspline", "deepali.core.kernels:cubic_bspline1d", "derivative"):
        "transposed evaluation supports derivative order 0 only (guarded by NotImplementedError just above)",
    ("deepali.data.image:ImageBatch.pyramid", "deepali.data.image:ImageBatch.downsample", "align_corners"):
        "the grids of the finest level were converted with grid.align_corners(align_corners); downsample(None) uses the batch's flag",
    ("deepali.data.image:ImageBatch.pyramid", "deepali.data.image:ImageBatch.downsample", "levels"):
        "one level per loop iteration (default levels=1)",
    ("deepali.data.image:ImageBatch.pyramid", "deepali.core.grid:Grid.resample", "min_size"):
        "min_size applies to the pyramid levels, not to the resampling to the finest spacing",
    ("deepali.core.image:downsample", "deepali.core.grid:Grid.__init__", "align_corners"):
        "helper grid of the data shape; the flag is passed explicitly to grid.downsample(..., align_corners=align_corners) right after",
    ("deepali.core.cube:Cube.grid", "deepali.core.grid:Grid.__init__", "align_corners"):
        "helper Grid used only to normalise (size, shape) into a size; the returned grid is built with align_corners further down",
    ("deepali.core.cube:Cube.grid", "deepali.core.grid:Grid.__init__", "spacing"):
        "helper Grid used only to normalise (size, shape) into a size",
}


def _carried_by_receiver(fi: FunctionInfo, call: ast.Call, option: str) -> bool:
    """Idiom: the callee is a method of a local object that was constructed / converted in this function with ``option=option``
    (e.g. ``grid = Grid(shape=..., align_corners=align_corners); grid.resize(size)``), so the callee's default picks it up."""
    f = call.func
    if not isinstance(f, ast.Attribute):
        return False
    base = f.value
    while isinstance(base, ast.Call) and isinstance(base.func, ast.Attribute):
        # chained: Grid(..., align_corners=a).coords()
        if any(k.arg == option and isinstance(k.value, ast.Name) and k.value.id == option for k in base.keywords):
            return True
        base = base.func.value
    if isinstance(base, ast.Call):
        return any(k.arg == option and isinstance(k.value, ast.Name) and k.value.id == option for k in base.keywords)
    if not isinstance(base, ast.Name):
        return False
    for n in walk_no_nested(fi.node):
        if isinstance(n, ast.Assign) and any(isinstance(t, ast.Name) and t.id == base.id for t in n.targets) and isinstance(n.value, ast.Call):
            v = n.value
            if any(k.arg == option and isinstance(k.value, ast.Name) and k.value.id == option for k in v.keywords):
                return True
            if any(isinstance(a, ast.Name) and a.id == option for a in v.args):
                return True
    return False


def option_forward(ctx: Ctx, modules: Iterable[str], rule: str = "E7.option-forward", options: Optional[Set[str]] = None) -> int:
    """Every function that takes one of the listed options and calls a resolved repo callee taking an option of the same name hands
    it on (by keyword or position, or carried by the receiver object); confirmed exceptions are listed with their reason."""
    options = options or FORWARDED_OPTIONS
    ctx.rule(rule, "a function that accepts an option (align_corners, link, steps, scale, stride, spacing, sigma, dims, reduction, mask, "
                   "padding, mode, ... — conventions and flags whose meaning is the same on both sides) and calls a repo function or "
                   "method accepting an option of the same name passes it on (keyword, position, or carried by a receiver constructed "
                   "with it); the 14 confirmed exceptions are listed with reasons in sa/siblings.py")
    prog, ti = ctx.prog, ctx.ti
    sites = 0
    used = set()
    for mod in modules:
        if mod not in prog.modules:
            raise AnalysisError(f"anchor module vanished: {mod}")
        mi = prog.modules[mod]
        funcs = list(mi.functions.values()) + [m for c in mi.classes.values() for m in c.methods.values()]
        for fi in funcs:
            if fi.overloads and fi.node in fi.overloads:
                continue
            ps = set(fi.params) & options
            if not ps:
                continue
            tenv = ti.env(fi)
            for n in walk_no_nested(fi.node):
                if not isinstance(n, ast.Call):
                    continue
                callees = ti.resolve_call(fi, n, tenv)
                if not callees or len(callees) != 1:
                    continue
                g = callees[0]
                if isinstance(g, ClassInfo):
                    g = prog.find_method(g, "__init__")
                if g is None or g is fi or not g.module.name.startswith("deepali"):
                    continue
                method = g.cls is not None and not g.is_static
                gp = g.params[1:] if method else g.params
                gpos = g.pos_params[1:] if method else g.pos_params
                if any(isinstance(a, ast.Starred) for a in n.args) or any(k.arg is None for k in n.keywords):
                    continue
                for p in sorted(ps & set(gp)):
                    # the caller's own parameter must still mean the caller's argument (not shadowed by a loop variable of the same name)
                    sites += 1
                    passed = any(k.arg == p for k in n.keywords) or (p in gpos and gpos.index(p) < len(n.args))
                    key = (fi.key, g.key, p)
                    ok = passed or _carried_by_receiver(fi, n, p)
                    if not ok and key in FORWARD_EXCEPTIONS:
                        used.add(key)
                        ok = True
                    ctx.fn(fi)
                    if not ok:
                        ctx.report(rule, fi, f"callee={g.key} option={p}",
                                   f"{fi.qualname}() accepts '{p}' but calls {g.qualname}() — which also takes '{p}' — without passing it on: "
                                   f"the callee falls back to its default", node=n)
                    ctx.ob(rule, f"{fi.key}->{g.key}:{p}@{n.lineno}", ok)
    ctx.extra.setdefault("option_forward", {})["sites"] = sites
    ctx.extra["option_forward"]["exceptions_used"] = sorted(f"{a} -> {b}: {c}" for a, b, c in used)
    return sites


# ----------------------------------------------------------------------------- module-level state (cross-cutting)
_MUTATING = {"append", "extend", "insert", "pop", "popitem", "clear", "update", "setdefault", "remove", "add", "discard", "sort", "reverse"}
_CONTAINER_CALLS = {"dict", "list", "set", "OrderedDict", "dict.fromkeys", "defaultdict", "collections.OrderedDict", "collections.defaultdict"}


def _module_containers(tree: ast.Module) -> Dict[str, int]:
    out: Dict[str, int] = {}
    for st in tree.body:
        if isinstance(st, ast.Assign) and len(st.targets) == 1:
            tg, v = st.targets[0], st.value
        elif isinstance(st, ast.AnnAssign):
            tg, v = st.target, st.value
        else:
            continue
        if not isinstance(tg, ast.Name) or v is None:
            continue
        if isinstance(v, (ast.Dict, ast.List, ast.Set, ast.DictComp, ast.ListComp, ast.SetComp)) or \
                (isinstance(v, ast.Call) and (dotted(v.func) or "") in _CONTAINER_CALLS):
            out[tg.id] = st.lineno
    return out


def _module_state_sites(tree: ast.Module):
    """(function node, node, container, alias) for every in-place modification of a module-level container inside a function,
    directly or through a local name bound to the container itself (``meta = DEFAULTS`` without a copy)."""
    glob = _module_containers(tree)
    for fn in ast.walk(tree):
        if not isinstance(fn, (ast.FunctionDef, ast.AsyncFunctionDef)):
            continue
        params = {a.arg for a in fn.args.posonlyargs + fn.args.args + fn.args.kwonlyargs}
        binds: Dict[str, List[ast.expr]] = {}
        for n in walk_no_nested(fn):
            if isinstance(n, ast.Assign):
                for tg in n.targets:
                    if isinstance(tg, ast.Name):
                        binds.setdefault(tg.id, []).append(n.value)
            elif isinstance(n, (ast.AnnAssign, ast.AugAssign)) and isinstance(n.target, ast.Name) and n.value is not None:
                binds.setdefault(n.target.id, []).append(n.value)
            elif isinstance(n, (ast.For, ast.comprehension)) and isinstance(n.target, ast.Name):
                binds.setdefault(n.target.id, []).append(n.iter)
        blines: Dict[str, List[Tuple[int, ast.expr]]] = {}
        for n in walk_no_nested(fn):
            if isinstance(n, ast.Assign):
                for tg in n.targets:
                    if isinstance(tg, ast.Name):
                        blines.setdefault(tg.id, []).append((n.lineno, n.value))
            elif isinstance(n, (ast.AnnAssign, ast.AugAssign)) and isinstance(n.target, ast.Name) and n.value is not None:
                blines.setdefault(n.target.id, []).append((n.lineno, n.value))
            elif isinstance(n, ast.For) and isinstance(n.target, ast.Name):
                blines.setdefault(n.target.id, []).append((n.lineno, n.iter))
        direct = {g for g in glob if g not in binds and g not in params}

        def owner(e) -> Optional[str]:
            """The module-level container a name refers to at this point: the (textually) latest binding before the use is
            ``name = CONTAINER`` with no copy; or the container's own name."""
            if not isinstance(e, ast.Name) or e.id in params:
                return None
            if e.id in direct:
                return e.id
            prior = [(ln, v) for ln, v in blines.get(e.id, []) if ln <= e.lineno]
            if not prior:
                return None
            v = max(prior, key=lambda t: t[0])[1]
            if isinstance(v, ast.Name) and v.id in direct:
                return v.id
            return None
        # parameters whose default is a mutable container literal: the one default object is shared by all calls
        a = fn.args
        pos = a.posonlyargs + a.args
        mdefaults: Dict[str, str] = {}
        for p_, d_ in list(zip(pos[len(pos) - len(a.defaults):], a.defaults)) + [(p_, d_) for p_, d_ in zip(a.kwonlyargs, a.kw_defaults) if d_ is not None]:
            if isinstance(d_, (ast.Dict, ast.List, ast.Set)) or (isinstance(d_, ast.Call) and (dotted(d_.func) or "") in _CONTAINER_CALLS):
                if p_.arg not in blines:
                    mdefaults[p_.arg] = f"default of parameter '{p_.arg}'"
        _owner0 = owner

        def owner(e, _o=_owner0) -> Optional[str]:  # noqa: F811
            if isinstance(e, ast.Name) and e.id in mdefaults:
                return mdefaults[e.id]
            return _o(e)
        for n in walk_no_nested(fn):
            hit = None
            if isinstance(n, (ast.Assign, ast.AugAssign)):
                for tg in (n.targets if isinstance(n, ast.Assign) else [n.target]):
                    if isinstance(tg, ast.Subscript) and owner(tg.value):
                        hit = tg.value
            elif isinstance(n, ast.Delete):
                for tg in n.targets:
                    if isinstance(tg, ast.Subscript) and owner(tg.value):
                        hit = tg.value
            elif isinstance(n, ast.Call) and isinstance(n.func, ast.Attribute) and n.func.attr in _MUTATING and owner(n.func.value):
                hit = n.func.value
            if hit is not None:
                yield fn, n, owner(hit), (hit.id if hit.id != owner(hit) else "")


_MODULE_STATE_CONTROL = """
DEFAULTS = dict.fromkeys(("a", "b"), None)
CACHE = {}

def leaky(x):
    meta = DEFAULTS
    meta["a"] = x
    return meta

def leaky_default(x, seen=[]):
    seen.append(x)
    return seen

def fine(x):
    meta = dict(DEFAULTS)
    meta["a"] = x
    local = {}
    local["k"] = x
    return meta
"""


def module_state(ctx: Ctx, modules: Iterable[str], rule: str = "E1.module-state") -> int:
    """No function modifies a module-level container in place (a call would then depend on the calls made before it)."""
    ctx.rule(rule, "no function of the anchor modules modifies a module-level dict / list / set in place — neither directly nor through a "
                   "local name bound to the container itself without a copy (``meta = DEFAULTS; meta[k] = v``) — nor a parameter's "
                   "mutable default object (``def f(x, seen=[])``): results must not depend on which calls were made before; a built-in positive example must be recognised on every run")
    ctl = list(_module_state_sites(ast.parse(_MODULE_STATE_CONTROL)))
    if [(f.name, c, a) for f, _, c, a in ctl] != [("leaky", "DEFAULTS", "meta"), ("leaky_default", "default of parameter 'seen'", "seen")]:
        raise AnalysisError(f"{rule}: positive control not recognised as expected: {[(f.name, c, a) for f, _, c, a in ctl]}")
    prog = ctx.prog
    nfun = 0
    for mod in modules:
        if mod not in prog.modules:
            raise AnalysisError(f"anchor module vanished: {mod}")
        mi = prog.modules[mod]
        sites = list(_module_state_sites(mi.tree))
        funcs = [n for n in ast.walk(mi.tree) if isinstance(n, (ast.FunctionDef, ast.AsyncFunctionDef))]
        nfun += len(funcs)
        bad = {}
        for fn, node, cont, al in sites:
            bad.setdefault((fn.name, cont), (fn, node, al))
        ctx.ob(rule, mod, not bad, {"module": mod, "functions": len(funcs), "module_level_containers": sorted(_module_containers(mi.tree))})
        for (fname, cont), (fn, node, al) in bad.items():
            fi = next((f for f in list(mi.functions.values()) + [m for c in mi.classes.values() for m in c.methods.values()]
                       if f.node is fn), None)
            via = f" through the local name '{al}'" if al else ""
            ctx.report(rule, fi, f"container={cont} function={fname}",
                       f"{fname}() modifies the module-level container {cont} in place{via}: state leaks from one call into the next",
                       node, where=f"{mod}:{fname}", file=mi.relpath)
    return nfun
