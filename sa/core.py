"""Check context: findings, obligations, evidence, known-findings handling."""
from __future__ import annotations

import json
import os
import time
from dataclasses import dataclass, field
from typing import Any, Dict, List, Optional

from .index import AnalysisError, FunctionInfo, Program, load_program
from .types import TypeInfer

VERIF = os.path.dirname(os.path.dirname(os.path.abspath(__file__)))
EVIDENCE_DIR = os.path.join(VERIF, "evidence")
KNOWN_FILE = os.path.join(VERIF, "known_findings.json")


@dataclass
class Finding:
    prop: str
    rule: str
    where: str  # "module:qualname"
    construct: str  # semantic key
    message: str
    file: str = ""
    line: int = 0
    detail: Dict[str, Any] = field(default_factory=dict)

    @property
    def key(self) -> str:
        return f"{self.rule}|{self.where}|{self.construct}"

    def as_dict(self) -> Dict[str, Any]:
        return {
            "property": self.prop, "rule": self.rule, "where": self.where, "construct": self.construct,
            "message": self.message, "file": self.file, "line": self.line, "key": self.key, "detail": self.detail,
        }


class EarlyStop(Exception):
    """Raised (mutation self-test only) as soon as the expected finding has been reported."""


class Ctx:
    """Everything a property's rule set needs, plus bookkeeping for evidence."""

    def __init__(self, prop: str, tier: str = "quick", prog: Optional[Program] = None):
        self.prop = prop
        self.tier = tier
        self.prog = prog or load_program()
        self.ti = TypeInfer(self.prog)
        self.findings: List[Finding] = []
        self.related: List[Dict[str, Any]] = []
        self.obligations = 0
        self.discharged = 0
        self.instances: Dict[str, int] = {}
        self.distinct: set = set()
        self.samples: List[Any] = []
        self.rules: Dict[str, str] = {}
        self.notes: List[str] = []
        self.functions_analysed: set = set()
        self.assumptions: List[str] = []
        self.side_conditions: List[str] = []
        self.extra: Dict[str, Any] = {}

    # -------------------------------------------------------------- recording
    def rule(self, rid: str, text: str) -> None:
        self.rules[rid] = text

    def ob(self, rule: str, instance: str, ok: bool, sample: Any = None, nontrivial: bool = True) -> bool:
        """Record one obligation (rule instance)."""
        self.obligations += 1
        self.instances[rule] = self.instances.get(rule, 0) + 1
        if ok:
            self.discharged += 1
        if nontrivial:
            self.distinct.add((rule, instance))
        if sample is not None and sum(1 for s in self.samples if s.get("rule") == rule) < 4:
            self.samples.append({"rule": rule, "instance": instance, "ok": ok, "case": sample})
        elif sample is None and sum(1 for s in self.samples if s.get("rule") == rule) < 2:
            self.samples.append({"rule": rule, "instance": instance, "ok": ok})
        return ok

    def fn(self, fi: FunctionInfo) -> None:
        self.functions_analysed.add(fi.key)

    def report(self, rule: str, fi: Optional[FunctionInfo], construct: str, message: str, node=None,
               where: Optional[str] = None, **detail) -> Finding:
        if fi is not None:
            w = fi.key
            file = fi.module.relpath
            line = getattr(node, "lineno", fi.node.lineno)
        else:
            w = where or "?"
            file = detail.pop("file", "")
            line = getattr(node, "lineno", 0)
        f = Finding(self.prop, rule, w, construct, message, file, line, detail)
        # one finding per key
        if all(x.key != f.key for x in self.findings):
            self.findings.append(f)
        stop = getattr(self, "stop_when", None)
        if stop is not None and stop(f):
            raise EarlyStop()
        return f

    def floor(self, rule: str, n: int, what: str = "") -> None:
        if getattr(self, "focus", None):
            return  # (self-test of one rule: the other rules' obligations are not evaluated)
        got = self.instances.get(rule, 0)
        if got < n:
            raise AnalysisError(f"instance floor not met for rule {rule}: matched {got} < {n} {what}".strip())

    def require(self, cond: bool, msg: str) -> None:
        if not cond:
            raise AnalysisError(msg)

    def only(self, rule_prefix: str):
        """``with ctx.only("T5.bspline"):`` — evaluate only the table obligations of the given rule (prefix) inside the block
        (used when a property shares one rule of a larger table with another property)."""
        ctx = self

        class _Only:
            def __enter__(self_):
                self_.prev = getattr(ctx, "focus", None)
                if self_.prev is None or rule_prefix.startswith(self_.prev):
                    ctx.focus = rule_prefix
                elif not self_.prev.startswith(rule_prefix):
                    ctx.focus = "\x00none"  # disjoint from the self-test focus: nothing to evaluate here
                return self_

            def __exit__(self_, *a):
                ctx.focus = self_.prev
                return False
        return _Only()

    # -------------------------------------------------------------- parallel sections
    def parallel(self):
        """``with ctx.parallel():`` — guarded obligations whose thunks are self-contained (build their own environment) are queued
        and then evaluated by forked worker processes; their records are merged in queue order. Sequential when disabled
        (VERIF_JOBS=1, mutation self-test children)."""
        return _ParallelSection(self)


class _Delta:
    """Picklable record of what one obligation added to a Ctx."""

    FIELDS = ("obligations", "discharged")

    def __init__(self):
        self.calls: List[Any] = []  # ("ob", args) / ("report", Finding) / ("fn", key) / ("note", str)


class _ParallelSection:
    def __init__(self, ctx: "Ctx"):
        self.ctx = ctx
        self.queue: List[Any] = []

    def __enter__(self):
        jobs = int(os.environ.get("VERIF_JOBS", "0") or 0) or min(16, os.cpu_count() or 1)
        if jobs > 1 and getattr(self.ctx, "stop_when", None) is None and getattr(self.ctx, "_par", None) is None:
            self.ctx._par = self
            self.jobs = jobs
        else:
            self.jobs = 1
        return self

    def defer(self, fn) -> None:
        self.queue.append(fn)

    def __exit__(self, et, ev, tb):
        if self.jobs == 1:
            return False
        ctx = self.ctx
        ctx._par = None
        if et is not None:
            return False
        import pickle
        n = len(self.queue)
        if n == 0:
            return False
        jobs = min(self.jobs, n)
        kids = []
        for w in range(jobs):
            r, wfd = os.pipe()
            pid = os.fork()
            if pid == 0:
                os.close(r)
                code = 0
                try:
                    out = []
                    for k in range(w, n, jobs):
                        rec = _Recorder(ctx)
                        try:
                            with rec:
                                self.queue[k]()
                            out.append((k, rec.calls, None))
                        except AnalysisError as e:
                            out.append((k, rec.calls, ("AnalysisError", str(e))))
                        except BaseException as e:  # internal error: reported by the parent as such
                            import traceback
                            out.append((k, rec.calls, ("internal", f"{type(e).__name__}: {e}\n{traceback.format_exc()[-1500:]}")))
                    with os.fdopen(wfd, "wb") as f:
                        pickle.dump(out, f)
                except BaseException:
                    code = 3
                finally:
                    os._exit(code)
            os.close(wfd)
            kids.append((pid, r))
        results = {}
        broken = None
        for pid, r in kids:
            with os.fdopen(r, "rb") as f:
                data = f.read()
            _, status = os.waitpid(pid, 0)
            if status != 0 or not data:
                broken = f"worker {pid} exited with status {status}"
                continue
            for k, calls, err in pickle.loads(data):
                results[k] = (calls, err)
        if broken:
            raise AnalysisError(f"parallel section: {broken}")
        for k in range(n):
            calls, err = results[k]
            for kind, args in calls:
                if kind == "ob":
                    ctx.ob(*args)
                elif kind == "report":
                    f = args
                    if all(x.key != f.key for x in ctx.findings):
                        ctx.findings.append(f)
                elif kind == "fn":
                    ctx.functions_analysed.add(args)
                elif kind == "note":
                    if args not in ctx.notes:
                        ctx.notes.append(args)
            if err is not None:
                if err[0] == "AnalysisError":
                    raise AnalysisError(err[1])
                raise RuntimeError(err[1])
        return False


class _Recorder:
    """Inside a worker: route ctx.ob / ctx.report / ctx.fn / notes of one obligation into a picklable list."""

    def __init__(self, ctx: "Ctx"):
        self.ctx = ctx
        self.calls: List[Any] = []

    def __enter__(self):
        ctx = self.ctx
        self._saved = (ctx.__dict__.get("ob"), ctx.__dict__.get("report"), ctx.__dict__.get("fn"))
        self._notes0 = len(ctx.notes)

        def ob(rule, instance, ok, sample=None, nontrivial=True):
            self.calls.append(("ob", (rule, instance, ok, sample, nontrivial)))
            return ok

        def report(rule, fi, construct, message, node=None, where=None, **detail):
            if fi is not None:
                w, file, line = fi.key, fi.module.relpath, getattr(node, "lineno", fi.node.lineno)
            else:
                w, file, line = where or "?", detail.pop("file", ""), getattr(node, "lineno", 0)
            f = Finding(ctx.prop, rule, w, construct, message, file, line, detail)
            self.calls.append(("report", f))
            return f

        def fn(fi):
            self.calls.append(("fn", fi.key))
        ctx.ob, ctx.report, ctx.fn = ob, report, fn
        return self

    def __exit__(self, *a):
        ctx = self.ctx
        for name in ("ob", "report", "fn"):
            ctx.__dict__.pop(name, None)
        for t in ctx.notes[self._notes0:]:
            self.calls.append(("note", t))
        del ctx.notes[self._notes0:]
        return False


def load_known() -> Dict[str, Any]:
    if not os.path.exists(KNOWN_FILE):
        return {"known": [], "fixed": []}
    with open(KNOWN_FILE) as f:
        return json.load(f)


def write_evidence(ctx: Ctx, wall_s: float, violations: int, known_hit: List[str], extra: Optional[Dict[str, Any]] = None,
                   status: str = "ok") -> str:
    os.makedirs(EVIDENCE_DIR, exist_ok=True)
    seed = int(os.environ.get("VERIF_SEED", "0") or 0)
    cov: Dict[str, Any] = {
        "explanation": (
            "Static analysis of /repo/src/deepali as parsed on this run (no deepali code imported or executed). "
            "Each obligation is one rule instance (call site, table entry, method path) decided from the AST; "
            "see 'rules' for the rule texts and DESIGN.md for what is and is not decided."
        ),
        "rule": "instances are enumerated from the current source by the rules listed under 'rules'; an instance is "
                "distinct/non-trivial when it is a distinct (rule, construct) pair with a non-vacuous obligation",
        "rules": ctx.rules,
        "evaluations": ctx.obligations,
        "distinct_nontrivial": len(ctx.distinct),
        "obligations": ctx.obligations,
        "discharged": ctx.discharged,
        "instances_per_rule": ctx.instances,
        "samples": ctx.samples[:40] or [{"note": "no instance"}],
        "functions_analysed": len(ctx.functions_analysed),
        "modules_parsed": len(ctx.prog.modules),
        "known_findings": known_hit,
        "related_findings": ctx.related,
        "side_conditions": ctx.side_conditions,
        "notes": ctx.notes,
        "status": status,
        "checker_cmd": f"./check {ctx.prop} --tier {ctx.tier}",
        "trusted_base": ["CPython ast", "sa/torch_model.py tables", "sa/specs.py reference tables"],
        "findings": [f.as_dict() for f in ctx.findings],
    }
    cov.update(ctx.extra)
    if extra:
        cov.update(extra)
    ev = {
        "property_id": ctx.prop,
        "tier": ctx.tier,
        "seed": seed,
        "level": "other",
        "coverage": cov,
        "assumptions": ctx.assumptions or ["torch API semantics as tabulated in sa/torch_model.py"],
        "wall_s": round(wall_s, 3),
        "violations": violations,
    }
    path = os.path.join(EVIDENCE_DIR, f"{ctx.prop}.json")
    tmp = path + ".tmp"
    with open(tmp, "w") as f:
        json.dump(ev, f, indent=1, default=str)
    os.replace(tmp, path)
    return path
