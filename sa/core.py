"""Check context: findings, obligations, evidence, known-findings handling."""
from __future__ import annotations

import json
import os
import time
from dataclasses import dataclass, field
from typing import Any, Dict, List, Optional

from .index import AnalysisError, FunctionInfo, Program, load_program
from .types import TypeInfer

VERIF = os.path.dirname(os.path.dirname(os.path.abspath(__file__)))
EVIDENCE_DIR = os.path.join(VERIF, "evidence")
KNOWN_FILE = os.path.join(VERIF, "known_findings.json")


@dataclass
class Finding:
    prop: str
    rule: str
    where: str  # "module:qualname"
    construct: str  # semantic key
    message: str
    file: str = ""
    line: int = 0
    detail: Dict[str, Any] = field(default_factory=dict)

    @property
    def key(self) -> str:
        return f"{self.rule}|{self.where}|{self.construct}"

    def as_dict(self) -> Dict[str, Any]:
        return {
            "property": self.prop, "rule": self.rule, "where": self.where, "construct": self.construct,
            "message": self.message, "file": self.file, "line": self.line, "key": self.key, "detail": self.detail,
        }


class EarlyStop(Exception):
    """Raised (mutation self-test only) as soon as the expected finding has been reported."""


class Ctx:
    """Everything a property's rule set needs, plus bookkeeping for evidence."""

    def __init__(self, prop: str, tier: str = "quick", prog: Optional[Program] = None):
        self.prop = prop
        self.tier = tier
        self.prog = prog or load_program()
        self.ti = TypeInfer(self.prog)
        self.findings: List[Finding] = []
        self.related: List[Dict[str, Any]] = []
        self.obligations = 0
        self.discharged = 0
        self.instances: Dict[str, int] = {}
        self.distinct: set = set()
        self.samples: List[Any] = []
        self.rules: Dict[str, str] = {}
        self.notes: List[str] = []
        self.functions_analysed: set = set()
        self.assumptions: List[str] = []
        self.side_conditions: List[str] = []
        self.extra: Dict[str, Any] = {}

    # -------------------------------------------------------------- recording
    def rule(self, rid: str, text: str) -> None:
        self.rules[rid] = text

    def ob(self, rule: str, instance: str, ok: bool, sample: Any = None, nontrivial: bool = True) -> bool:
        """Record one obligation (rule instance)."""
        self.obligations += 1
        self.instances[rule] = self.instances.get(rule, 0) + 1
        if ok:
            self.discharged += 1
        if nontrivial:
            self.distinct.add((rule, instance))
        if sample is not None and sum(1 for s in self.samples if s.get("rule") == rule) < 4:
            self.samples.append({"rule": rule, "instance": instance, "ok": ok, "case": sample})
        elif sample is None and sum(1 for s in self.samples if s.get("rule") == rule) < 2:
            self.samples.append({"rule": rule, "instance": instance, "ok": ok})
        return ok

    def fn(self, fi: FunctionInfo) -> None:
        self.functions_analysed.add(fi.key)

    def report(self, rule: str, fi: Optional[FunctionInfo], construct: str, message: str, node=None,
               where: Optional[str] = None, **detail) -> Finding:
        if fi is not None:
            w = fi.key
            file = fi.module.relpath
            line = getattr(node, "lineno", fi.node.lineno)
        else:
            w = where or "?"
            file = detail.pop("file", "")
            line = getattr(node, "lineno", 0)
        f = Finding(self.prop, rule, w, construct, message, file, line, detail)
        # one finding per key
        if all(x.key != f.key for x in self.findings):
            self.findings.append(f)
        stop = getattr(self, "stop_when", None)
        if stop is not None and stop(f):
            raise EarlyStop()
        return f

    def floor(self, rule: str, n: int, what: str = "") -> None:
        got = self.instances.get(rule, 0)
        if got < n:
            raise AnalysisError(f"instance floor not met for rule {rule}: matched {got} < {n} {what}".strip())

    def require(self, cond: bool, msg: str) -> None:
        if not cond:
            raise AnalysisError(msg)


def load_known() -> Dict[str, Any]:
    if not os.path.exists(KNOWN_FILE):
        return {"known": [], "fixed": []}
    with open(KNOWN_FILE) as f:
        return json.load(f)


def write_evidence(ctx: Ctx, wall_s: float, violations: int, known_hit: List[str], extra: Optional[Dict[str, Any]] = None,
                   status: str = "ok") -> str:
    os.makedirs(EVIDENCE_DIR, exist_ok=True)
    seed = int(os.environ.get("VERIF_SEED", "0") or 0)
    cov: Dict[str, Any] = {
        "explanation": (
            "Static analysis of /repo/src/deepali as parsed on this run (no deepali code imported or executed). "
            "Each obligation is one rule instance (call site, table entry, method path) decided from the AST; "
            "see 'rules' for the rule texts and DESIGN.md for what is and is not decided."
        ),
        "rule": "instances are enumerated from the current source by the rules listed under 'rules'; an instance is "
                "distinct/non-trivial when it is a distinct (rule, construct) pair with a non-vacuous obligation",
        "rules": ctx.rules,
        "evaluations": ctx.obligations,
        "distinct_nontrivial": len(ctx.distinct),
        "obligations": ctx.obligations,
        "discharged": ctx.discharged,
        "instances_per_rule": ctx.instances,
        "samples": ctx.samples[:40] or [{"note": "no instance"}],
        "functions_analysed": len(ctx.functions_analysed),
        "modules_parsed": len(ctx.prog.modules),
        "known_findings": known_hit,
        "related_findings": ctx.related,
        "side_conditions": ctx.side_conditions,
        "notes": ctx.notes,
        "status": status,
        "checker_cmd": f"./check {ctx.prop} --tier {ctx.tier}",
        "trusted_base": ["CPython ast", "sa/torch_model.py tables", "sa/specs.py reference tables"],
        "findings": [f.as_dict() for f in ctx.findings],
    }
    cov.update(ctx.extra)
    if extra:
        cov.update(extra)
    ev = {
        "property_id": ctx.prop,
        "tier": ctx.tier,
        "seed": seed,
        "level": "other",
        "coverage": cov,
        "assumptions": ctx.assumptions or ["torch API semantics as tabulated in sa/torch_model.py"],
        "wall_s": round(wall_s, 3),
        "violations": violations,
    }
    path = os.path.join(EVIDENCE_DIR, f"{ctx.prop}.json")
    tmp = path + ".tmp"
    with open(tmp, "w") as f:
        json.dump(ev, f, indent=1, default=str)
    os.replace(tmp, path)
    return path
