"""E5: symbolic tensors — concrete small shapes, entries in the ring normal form (``Rat``).

Storage/aliasing model: a tensor is (shared store list, index list, shape); views share the store, so the effect of
in-place operations on views and aliases is represented faithfully (needed for the repo's in-place idioms).
"""
from __future__ import annotations

import itertools
from fractions import Fraction
from typing import Any, Callable, Dict, List, Optional, Sequence, Tuple, Union

from .ring import Poly, Rat, float_to_fraction


from .index import AnalysisError


class Unsupported(AnalysisError):
    """Construct outside the evaluator's vocabulary (=> ANALYSIS-ERROR, never a violation)."""


class Size(tuple):
    def numel(self) -> int:
        n = 1
        for x in self:
            n *= x
        return n

    def __getitem__(self, i):
        r = tuple.__getitem__(self, i)
        return Size(r) if isinstance(i, slice) else r

    def __add__(self, o):
        return Size(tuple.__add__(self, tuple(o)))

    def __radd__(self, o):
        return Size(tuple(o) + tuple(self))


# --------------------------------------------------------------------------- assumptions about atoms
class Facts:
    """Sign / integrality facts about atoms, supplied by the adaptor; used to decide comparisons."""

    def __init__(self):
        self.integral: set = set()
        self.positive: List[Rat] = []  # expressions assumed > 0
        self.used: List[str] = []
        self.generic_inequalities: List[str] = []

    def declare_positive(self, r: Rat) -> None:
        self.positive.append(r)

    def sign(self, r: Rat) -> Optional[int]:
        """-1, 0, +1 or None (unknown)."""
        if r.is_zero():
            return 0
        if r.is_const():
            v = r.const_value()
            return (v > 0) - (v < 0)
        for f in self.positive:
            q = r / f
            if q.is_const():
                v = q.const_value()
                self.used.append(f"{f} > 0")
                return (v > 0) - (v < 0)
        # sums/products of positive things with positive coefficients
        s = self._sign_by_structure(r)
        return s

    def _sign_by_structure(self, r: Rat) -> Optional[int]:
        # numerator and denominator polynomials whose every monomial has a positive coefficient over positive atoms
        pos_atoms = {next(iter(f.num.atoms())) for f in self.positive
                     if f.den.is_const() and len(f.num.terms) == 1 and f.num.degree() == 1}

        def psign(p: Poly) -> Optional[int]:
            if p.is_zero():
                return 0
            if not (p.atoms() <= pos_atoms):
                return None
            signs = {(c > 0) - (c < 0) for c in p.terms.values()}
            if len(signs) == 1:
                return signs.pop()
            return None
        a, b = psign(r.num), psign(r.den)
        if a is None or b is None or b == 0:
            return None
        return a * b

    def is_integral(self, r: Rat) -> bool:
        if not r.den.is_const():
            return False
        for m, c in r.num.terms.items():
            if Fraction(c).denominator != 1:
                return False
            if any(a not in self.integral for a, _ in m):
                return False
        return True


FACTS = Facts()


def set_facts(f: Facts) -> None:
    global FACTS
    FACTS = f


def to_rat(x) -> Rat:
    if isinstance(x, Rat):
        return x
    if isinstance(x, STensor):
        if x.numel() != 1:
            raise Unsupported("scalar conversion of multi-element tensor")
        return to_rat(x.flat()[0])
    if isinstance(x, bool):
        return Rat.of(int(x))
    if isinstance(x, (int, Fraction)):
        return Rat.of(x)
    if isinstance(x, float):
        return Rat.of(float_to_fraction(x))
    raise Unsupported(f"cannot convert {type(x).__name__} to symbolic scalar")


def is_scalar(x) -> bool:
    return isinstance(x, (Rat, int, Fraction, float, bool))


def simplify(x):
    """Collapse constant Rats to Python numbers where that is lossless (keeps concrete control flow concrete)."""
    if isinstance(x, Rat) and x.is_const():
        v = x.const_value()
        return int(v) if v.denominator == 1 else v
    return x


def compare(op: str, a, b):
    """Compare two scalars; returns bool or raises Unsupported when undecidable from FACTS."""
    if isinstance(a, bool) or isinstance(b, bool):
        if isinstance(a, bool) and isinstance(b, bool):
            return {"eq": a == b, "ne": a != b}.get(op, None) if op in ("eq", "ne") else _num_cmp(op, int(a), int(b))
    ra, rb = to_rat(a), to_rat(b)
    d = ra - rb
    if op == "eq":
        if d.is_zero():
            return True
        if not d.is_const():
            FACTS.generic_inequalities.append(f"{ra} != {rb}")
        return False
    if op == "ne":
        if d.is_zero():
            return False
        if not d.is_const():
            FACTS.generic_inequalities.append(f"{ra} != {rb}")
        return True
    s = FACTS.sign(d)
    if s is None and getattr(FACTS, "generic_tiny", False):
        # "|x| < epsilon" clean-up tests on a symbolic (generic, non-degenerate) value: a non-constant magnitude is not tiny
        for big, small, sg in ((ra, rb, 1), (rb, ra, -1)):
            if small.is_const() and abs(small.const_value()) <= Fraction(1, 10 ** 3) and not big.is_const():
                names = big.num.atoms() if big.den.is_const() and len(big.num.terms) == 1 else set()
                if len(names) == 1 and next(iter(names)).startswith("abs("):
                    (m, c), = big.num.terms.items()
                    FACTS.generic_inequalities.append(f"{big} > {small} (generic magnitude)")
                    s = sg * ((c > 0) - (c < 0))
    if s is None:
        s = _numeric_sign(d)
    if s is None:
        raise Unsupported(f"cannot decide sign of {d} (comparison {op})")
    return {"lt": s < 0, "le": s <= 0, "gt": s > 0, "ge": s >= 0}[op]


def _numeric_sign(d) -> Optional[int]:
    """Sign of an expression built from rational constants and function atoms with constant arguments (acos(3/5), sqrt(2), ...):
    evaluated numerically; decided only when the value is well away from zero."""
    v = numeric_value(d)
    if v is None or abs(v) < 1e-9:
        return None
    return 1 if v > 0 else -1


def numeric_value(d) -> Optional[float]:
    """Floating-point value of a *constant* expression (rational constants and function atoms with constant arguments), else None."""
    import math
    fn = {"acos": math.acos, "asin": math.asin, "atan": math.atan, "sqrt": math.sqrt, "exp": math.exp, "log": math.log, "tanh": math.tanh,
          "atanh": math.atanh, "cos": math.cos, "sin": math.sin, "tan": math.tan}

    def val_atom(a: str) -> Optional[float]:
        if a == "pi":
            return math.pi
        if a not in _FUNC_ARG or "(" not in a:
            return None
        name = a[:a.index("(")]
        arg = _FUNC_ARG[a]
        if name == "atan2" and len(_FUNC_ARGS.get(a, ())) == 2:
            y_, x_ = (val(t) for t in _FUNC_ARGS[a])
            return None if y_ is None or x_ is None else math.atan2(y_, x_)
        if name not in fn:
            return None
        av = val(arg)
        if av is None:
            return None
        try:
            return fn[name](av)
        except (ValueError, OverflowError):
            return None

    def val_poly(p) -> Optional[float]:
        tot = 0.0
        for m, c in p.terms.items():
            t = float(c)
            for a, e in m:
                v = val_atom(a)
                if v is None:
                    return None
                t *= v ** e
            tot += t
        return tot

    def val(r) -> Optional[float]:
        r = to_rat(r)
        n, dd = val_poly(r.num), val_poly(r.den)
        if n is None or dd is None or dd == 0:
            return None
        return n / dd
    return val(d)


def _num_cmp(op, a, b):
    return {"lt": a < b, "le": a <= b, "gt": a > b, "ge": a >= b, "eq": a == b, "ne": a != b}[op]


# --------------------------------------------------------------------------- tensor
def _as_index(x):
    if x is None:
        return None
    if isinstance(x, STensor):
        x = x.item()
    x = simplify(x)
    if isinstance(x, Fraction) and x.denominator == 1:
        x = int(x)
    if not isinstance(x, int):
        raise Unsupported(f"non-integer slice bound {x}")
    return x


def _strides(shape: Sequence[int]) -> List[int]:
    st = [1] * len(shape)
    for i in range(len(shape) - 2, -1, -1):
        st[i] = st[i + 1] * shape[i + 1]
    return st


def _numel(shape: Sequence[int]) -> int:
    n = 1
    for s in shape:
        n *= s
    return n


class DType:
    def __init__(self, name: str, floating: bool):
        self.name = name
        self.is_floating_point = floating

    def __repr__(self):
        return f"torch.{self.name}"

    def __eq__(self, o):
        return isinstance(o, DType) and o.name == self.name

    def __hash__(self):
        return hash(self.name)


FLOAT = DType("float32", True)
DOUBLE = DType("float64", True)
INT = DType("int64", False)
INT32 = DType("int32", False)
BOOL = DType("bool", False)
DTYPES = {"float": FLOAT, "float32": FLOAT, "double": DOUBLE, "float64": DOUBLE, "long": INT, "int64": INT,
          "int": INT32, "int32": INT32, "bool": BOOL, "half": FLOAT, "float16": FLOAT, "uint8": INT32, "int16": INT32,
          "int8": INT32}


class Device:
    def __init__(self, name="cpu"):
        self.type = name

    def __eq__(self, o):
        return True if isinstance(o, (Device, str)) else False

    def __ne__(self, o):
        return False

    def __hash__(self):
        return 0

    def __repr__(self):
        return "device(cpu)"


CPU = Device()


class Storage:
    """The flat element store behind one or more tensor views (torch.Storage)."""

    def __init__(self, store, dtype):
        self.store = store
        self.dtype = dtype

    def __len__(self):
        return len(self.store)

    def size(self):
        return len(self.store)

    def pickled(self) -> "Storage":
        """What unpickling yields: a storage with the same elements that shares nothing with the original."""
        return Storage(list(self.store), self.dtype)


def rebuild_tensor_v2(storage, storage_offset, size, stride, requires_grad=False, backward_hooks=None, metadata=None):
    """torch._utils._rebuild_tensor_v2 as used by pickling: the storage arrives as a copy; the view is offset + sum i_k stride_k."""
    import itertools as _it
    if not isinstance(storage, Storage):
        raise InterpError("TypeError", "_rebuild_tensor_v2 expects a storage")
    st = storage.pickled()
    size = [int(n) for n in size]
    idx = []
    for pos in _it.product(*[range(n) for n in size]):
        k = int(storage_offset) + sum(i * int(s_) for i, s_ in zip(pos, stride))
        if not 0 <= k < len(st.store):
            raise InterpError("RuntimeError", "setStorage: sizes, strides and offset are out of bounds for the storage")
        idx.append(k)
    t = STensor(st.store, idx, size, storage.dtype)
    t.requires_grad = bool(requires_grad)
    return t


class STensor:
    __slots__ = ("store", "idx", "shape", "dtype", "requires_grad")

    def __init__(self, store: List[Any], idx: List[int], shape: Sequence[int], dtype: DType = FLOAT):
        self.store = store
        self.idx = idx
        self.shape = Size(shape)
        self.dtype = dtype
        self.requires_grad = False

    # ---- construction
    @staticmethod
    def from_flat(values: Sequence[Any], shape: Sequence[int], dtype: Optional[DType] = None) -> "STensor":
        vals = list(values)
        assert len(vals) == _numel(shape), (len(vals), shape)
        if dtype is None:
            dtype = BOOL if vals and all(isinstance(v, bool) for v in vals) else FLOAT
        if dtype is not BOOL:
            vals = [to_rat(v) for v in vals]
        return STensor(vals, list(range(len(vals))), shape, dtype)

    @staticmethod
    def from_nested(obj, dtype: Optional[DType] = None) -> "STensor":
        shape: List[int] = []
        o = obj
        while isinstance(o, (list, tuple)):
            shape.append(len(o))
            if len(o) == 0:
                break
            o = o[0]
        flat: List[Any] = []

        def rec(x, d):
            if d == len(shape):
                if isinstance(x, STensor):
                    if x.numel() != 1:
                        raise Unsupported("nested tensor in torch.tensor()")
                    x = x.flat()[0]
                flat.append(x)
                return
            if not isinstance(x, (list, tuple)) or len(x) != shape[d]:
                raise Unsupported("ragged nested sequence")
            for y in x:
                rec(y, d + 1)
        rec(obj, 0)
        if dtype is None:
            if flat and all(isinstance(v, bool) for v in flat):
                dtype = BOOL
            elif flat and all(isinstance(v, int) and not isinstance(v, bool) for v in flat):
                dtype = INT
            else:
                dtype = FLOAT
        return STensor.from_flat(flat, shape, dtype)

    @staticmethod
    def symbols(prefix: str, shape: Sequence[int]) -> "STensor":
        vals = []
        for ix in itertools.product(*[range(s) for s in shape]):
            vals.append(Rat.atom(prefix + "".join(str(i) for i in ix)))
        return STensor.from_flat(vals, shape)

    # ---- basic queries
    @property
    def ndim(self) -> int:
        return len(self.shape)

    def dim(self) -> int:
        return len(self.shape)

    def numel(self) -> int:
        return _numel(self.shape)

    def flat(self) -> List[Any]:
        return [self.store[i] for i in self.idx]

    @property
    def device(self) -> Device:
        return CPU

    def __len__(self) -> int:
        if not self.shape:
            raise Unsupported("len() of 0-d tensor")
        return self.shape[0]

    def tolist(self):
        def rec(off, d):
            if d == len(self.shape):
                return simplify(self.store[self.idx[off]])
            st = _strides(self.shape)[d]
            return [rec(off + i * st, d + 1) for i in range(self.shape[d])]
        return rec(0, 0)

    def item(self):
        if self.numel() != 1:
            raise Unsupported("item() of multi-element tensor")
        return simplify(self.flat()[0])

    def __iter__(self):
        for i in range(len(self)):
            yield self[i]

    def __repr__(self) -> str:
        return f"STensor(shape={tuple(self.shape)}, {self.tolist()})"

    # ---- views
    def _view(self, idx: List[int], shape: Sequence[int]) -> "STensor":
        return STensor(self.store, idx, shape, self.dtype)

    def reshape(self, *shape) -> "STensor":
        shape = _shape_args(shape)
        n = self.numel()
        if -1 in shape:
            k = shape.index(-1)
            rest = _numel([s for i, s in enumerate(shape) if i != k])
            shape = list(shape)
            shape[k] = n // rest if rest else 0
        if _numel(shape) != n:
            raise InterpError("RuntimeError", f"shape {tuple(shape)} is invalid for input of size {n}")
        return self._view(list(self.idx), shape)

    view = reshape

    def flatten(self, start=0, end=-1, start_dim=None, end_dim=None) -> "STensor":
        start = start if start_dim is None else start_dim
        end = end if end_dim is None else end_dim
        nd = self.ndim
        if nd == 0:
            return self.reshape(1)
        start %= nd
        end %= nd
        shape = list(self.shape[:start]) + [_numel(self.shape[start:end + 1])] + list(self.shape[end + 1:])
        return self.reshape(shape)

    def permute(self, *dims) -> "STensor":
        dims = [d % self.ndim for d in _shape_args(dims)]
        if sorted(dims) != list(range(self.ndim)):
            raise InterpError("RuntimeError", "permute dims")
        st = _strides(self.shape)
        new_shape = [self.shape[d] for d in dims]
        idx = []
        for ix in itertools.product(*[range(s) for s in new_shape]):
            off = sum(ix[k] * st[dims[k]] for k in range(len(dims)))
            idx.append(self.idx[off])
        return self._view(idx, new_shape)

    def transpose(self, a, b) -> "STensor":
        d = list(range(self.ndim))
        a %= self.ndim
        b %= self.ndim
        d[a], d[b] = d[b], d[a]
        return self.permute(d)

    def t(self) -> "STensor":
        if self.ndim > 2:
            raise InterpError("RuntimeError", "t() expects a tensor with <= 2 dimensions")
        if self.ndim < 2:
            return self
        return self.transpose(0, 1)

    @property
    def T(self):
        return self.permute(list(reversed(range(self.ndim))))

    @property
    def mT(self):
        return self.transpose(-2, -1)

    def unsqueeze(self, d=None, dim=None) -> "STensor":
        if dim is not None:
            d = dim
        nd = self.ndim + 1
        if not -nd <= d < nd:
            raise InterpError("IndexError", "unsqueeze dim out of range")
        d %= nd
        shape = list(self.shape)
        shape.insert(d, 1)
        return self._view(list(self.idx), shape)

    def squeeze(self, d=None, dim=None) -> "STensor":
        if dim is not None:
            d = dim
        if d is None:
            shape = [s for s in self.shape if s != 1]
        else:
            if self.ndim == 0:
                return self
            d %= self.ndim
            shape = list(self.shape)
            if shape[d] == 1:
                del shape[d]
        return self._view(list(self.idx), shape)

    def _become(self, v: "STensor") -> "STensor":
        self.idx = list(v.idx)
        self.shape = Size(v.shape)
        return self

    def squeeze_(self, d=None, dim=None):
        return self._become(self.squeeze(d, dim))

    def unsqueeze_(self, d=None, dim=None):
        return self._become(self.unsqueeze(d, dim))

    def transpose_(self, a, b):
        return self._become(self.transpose(a, b))

    def t_(self):
        return self._become(self.t())

    def round_(self, decimals=0):
        r = self.round(decimals)
        for i, v in zip(self.idx, r.flat()):
            self.store[i] = v
        return self

    def expand(self, *shape) -> "STensor":
        shape = list(_shape_args(shape))
        if len(shape) < self.ndim:
            raise InterpError("RuntimeError", "expand: fewer dims")
        old = [1] * (len(shape) - self.ndim) + list(self.shape)
        for i, s in enumerate(shape):
            if s == -1:
                shape[i] = old[i]
            elif old[i] != 1 and old[i] != s:
                raise InterpError("RuntimeError", f"expand {tuple(self.shape)} -> {tuple(shape)}")
        st = _strides(old)
        idx = []
        for ix in itertools.product(*[range(s) for s in shape]):
            off = sum((ix[k] if old[k] != 1 else 0) * st[k] for k in range(len(shape)))
            idx.append(self.idx[off])
        return self._view(idx, shape)

    def expand_as(self, o: "STensor") -> "STensor":
        return self.expand(o.shape)

    def narrow(self, dim, start, length) -> "STensor":
        sl = [slice(None)] * self.ndim
        dim %= self.ndim
        n = self.shape[dim]
        start = int(start)
        if start < 0:
            start += n  # torch: a negative start counts from the end of the dimension
        if start < 0 or length < 0 or start + length > n:
            raise InterpError("RuntimeError", f"narrow: start ({start}) + length ({length}) exceeds dimension size ({n})")
        sl[dim] = slice(start, start + length)
        return self[tuple(sl)]

    def select(self, dim, index) -> "STensor":
        sl: List[Any] = [slice(None)] * self.ndim
        sl[dim % self.ndim] = index
        return self[tuple(sl)]

    def unbind(self, dim=0):
        return tuple(self.select(dim, i) for i in range(self.shape[dim % self.ndim]))

    def split(self, size, dim=0):
        dim %= self.ndim
        n = self.shape[dim]
        out = []
        if isinstance(size, int):
            sizes = [min(size, n - i) for i in range(0, n, size)]
        else:
            sizes = list(size)
        s = 0
        for k in sizes:
            out.append(self.narrow(dim, s, k))
            s += k
        return tuple(out)

    def chunk(self, chunks, dim=0):
        dim %= self.ndim
        n = self.shape[dim]
        size = -(-n // chunks)
        return self.split(size, dim)

    def diagonal(self, offset=0, dim1=0, dim2=1):
        if self.ndim != 2 or offset != 0:
            raise Unsupported("diagonal of non-matrix")
        n = min(self.shape)
        return self._view([self.idx[i * self.shape[1] + i] for i in range(n)], [n])

    def _index(self, key) -> Tuple[List[int], List[int]]:
        """Basic indexing plus adjacent integer-sequence (advanced) indices: returns (idx list, new shape)."""
        if isinstance(key, list) and any(isinstance(k, slice) or k is None or k is Ellipsis for k in key):
            key = tuple(key)  # legacy numpy/torch behaviour: a list containing slices indexes like a tuple
        if not isinstance(key, tuple):
            key = (key,)
        key = list(key)
        if len(key) == 1 and isinstance(key[0], STensor) and key[0].dtype is BOOL and key[0].ndim > 0:
            m = key[0]
            if list(m.shape) != list(self.shape[:m.ndim]):
                raise InterpError("IndexError", f"boolean index of shape {tuple(m.shape)} does not match tensor of shape {tuple(self.shape)}")
            inner = _numel(self.shape[m.ndim:])
            sel: List[int] = []
            cnt = 0
            for pos, flag in enumerate(m.flat()):
                if _truth(flag):
                    sel.extend(self.idx[pos * inner:(pos + 1) * inner])
                    cnt += 1
            return sel, [cnt] + list(self.shape[m.ndim:])
        for i, k in enumerate(key):
            if hasattr(k, "cls") and hasattr(k, "value") and isinstance(getattr(k, "value"), int):
                key[i] = k = k.value  # IntEnum member used as index
            if isinstance(k, STensor):
                if k.dtype is BOOL:
                    raise Unsupported("boolean mask indexing")
                if k.ndim == 0:
                    v = simplify(k.flat()[0])
                    if not isinstance(v, int):
                        raise Unsupported("symbolic index")
                    key[i] = v
                elif k.ndim == 1:
                    vals = [simplify(x) for x in k.flat()]
                    if not all(isinstance(v, int) for v in vals):
                        raise Unsupported("symbolic index tensor")
                    key[i] = tuple(vals)
                else:
                    raise Unsupported("multi-dimensional index tensor")
            elif isinstance(k, list):
                key[i] = tuple(k)
        n_real = sum(1 for k in key if k is not None and k is not Ellipsis)
        if Ellipsis in key:
            e = key.index(Ellipsis)
            key = key[:e] + [slice(None)] * (self.ndim - n_real) + key[e + 1:]
        else:
            key = key + [slice(None)] * (self.ndim - n_real)
        if sum(1 for k in key if k is not None) != self.ndim:
            raise InterpError("IndexError", "too many indices for tensor")
        st = _strides(self.shape)
        entries: List[List[int]] = []  # per output pseudo-dimension: list of offset contributions
        new_shape: List[int] = []
        adv_positions = [i for i, k in enumerate(key) if isinstance(k, tuple)]
        if adv_positions and adv_positions != list(range(adv_positions[0], adv_positions[-1] + 1)):
            raise Unsupported("non-adjacent advanced indices")
        L = None
        if adv_positions:
            lens = {len(key[i]) for i in adv_positions}
            if len(lens) != 1:
                raise Unsupported("advanced indices of different lengths")
            L = lens.pop()
        d = 0
        adv_done = False
        adv_offsets = [0] * (L or 0)
        for pos, k in enumerate(key):
            if k is None:
                entries.append([0])
                new_shape.append(1)
                continue
            size = self.shape[d]
            if isinstance(k, tuple):
                for l, v in enumerate(k):
                    v = simplify(v)
                    if not isinstance(v, int) or not -size <= v < size:
                        raise InterpError("IndexError", f"index {v} out of range for dimension {d}")
                    adv_offsets[l] += (v % size) * st[d]
                if pos == adv_positions[-1]:
                    entries.append(list(adv_offsets))
                    new_shape.append(L)
                d += 1
                continue
            if isinstance(k, slice):
                k = slice(*[_as_index(x) for x in (k.start, k.stop, k.step)])
                p = list(range(*k.indices(size)))
                entries.append([x * st[d] for x in p])
                new_shape.append(len(p))
            else:
                k = simplify(k)
                if isinstance(k, Fraction) and k.denominator == 1:
                    k = int(k)
                if not isinstance(k, int) or isinstance(k, bool):
                    raise Unsupported(f"index of type {type(k).__name__}")
                if not -size <= k < size:
                    raise InterpError("IndexError", f"index {k} is out of bounds for dimension {d} with size {size}")
                entries.append([(k % size) * st[d]])
                new_shape.append(-1)  # dropped
            d += 1
        idx = [self.idx[sum(combo)] for combo in itertools.product(*entries)]
        return idx, [s for s in new_shape if s != -1]

    def __getitem__(self, key) -> "STensor":
        idx, shape = self._index(key)
        return self._view(idx, shape)

    def __setitem__(self, key, value) -> None:
        idx, shape = self._index(key)
        if isinstance(value, (tuple, list)):
            value = STensor.from_nested(list(value))  # numpy / torch accept sequences on the right-hand side
        if isinstance(value, STensor):
            if value.ndim > 0 and value.dtype.is_floating_point and self.dtype.is_floating_point and \
                    _FLOAT_WIDTH.get(value.dtype.name, 32) < _FLOAT_WIDTH.get(self.dtype.name, 32):
                PRECISION_EVENTS.append((value.dtype.name, self.dtype.name))  # values computed in a narrower float type stored into a wider tensor
            v = value.expand(shape) if tuple(value.shape) != tuple(shape) else value
            vals = v.flat()
        else:
            vals = [value if self.dtype is BOOL else to_rat(value)] * len(idx)
        if len(vals) != len(idx):
            raise InterpError("RuntimeError", "shape mismatch in item assignment")
        for i, v in zip(idx, list(vals)):
            self.store[i] = v

    # ---- copies / conversions
    def clone(self, *a, **k) -> "STensor":
        return STensor.from_flat(self.flat(), self.shape, self.dtype)

    def contiguous(self, *a, **k) -> "STensor":
        # torch: the tensor itself when its elements are already densely packed in order (at any storage offset), else a packed copy
        return self if self.is_contiguous() else self.clone()

    def detach(self) -> "STensor":
        GRAPH_EVENTS.append(("detach", id(self.store)))  # the result shares the storage but not the autograd history
        return self._view(list(self.idx), self.shape)

    def to(self, *args, **kwargs) -> "STensor":
        dt = kwargs.get("dtype")
        for a in args:
            if isinstance(a, DType):
                dt = a
            elif isinstance(a, STensor):
                dt = a.dtype
        return self.type(dt) if dt is not None and dt != self.dtype else self

    def type(self, dt=None) -> "STensor":
        if dt is None or dt == self.dtype:
            return self
        if isinstance(dt, STensor):
            dt = dt.dtype
        if not isinstance(dt, DType):
            raise Unsupported(f"type({dt!r})")
        if self.dtype is BOOL:
            return STensor.from_flat([int(v) for v in self.flat()], self.shape, dt)
        if dt is BOOL:
            return STensor.from_flat([not to_rat(v).is_zero() for v in self.flat()], self.shape, BOOL)
        if dt.is_floating_point and self.dtype.is_floating_point and self.ndim > 0 and \
                _FLOAT_WIDTH.get(dt.name, 32) < _FLOAT_WIDTH.get(self.dtype.name, 32):
            PRECISION_EVENTS.append((f"cast {self.dtype.name}->{dt.name}", dt.name))  # narrowing cast of a dimensioned tensor
        elif dt.is_floating_point and self.dtype.is_floating_point and self.ndim > 0 and \
                _FLOAT_WIDTH.get(dt.name, 32) > _FLOAT_WIDTH.get(self.dtype.name, 32) and \
                any(not FACTS.is_integral(to_rat(v)) for v in self.flat()):
            # widening cast of a dimensioned tensor with non-integer entries: the values were computed (and rounded) in the narrower type
            WIDENING_EVENTS.append((f"{self.dtype.name} values cast up ({self.dtype.name}->{dt.name})", dt.name))
        if not dt.is_floating_point and self.dtype.is_floating_point:
            vals = []
            for v in self.flat():
                if FACTS.is_integral(v):
                    vals.append(v)
                elif v.is_const():
                    c = v.const_value()
                    vals.append(Rat.of(int(c)))  # truncation toward zero like torch
                else:
                    raise Unsupported(f"integer cast of non-integral symbolic value {v}")
            return STensor.from_flat(vals, self.shape, dt)
        return STensor(list(self.flat()), list(range(self.numel())), self.shape, dt)

    def type_as(self, o):
        return self.type(o.dtype)

    def float(self):
        return self.type(FLOAT)

    def double(self):
        return self.type(DOUBLE)

    def long(self):
        return self.type(INT)

    def int(self):
        return self.type(INT32)

    def bool(self):
        return self.type(BOOL)

    def cpu(self):
        return self

    def numpy(self):
        raise Unsupported("numpy()")

    def is_floating_point(self) -> bool:
        return self.dtype.is_floating_point

    def size(self, i=None):
        return self.shape if i is None else self.shape[i]

    def new_zeros(self, *shape):
        return zeros(*shape, dtype=self.dtype)

    def new_ones(self, *shape):
        return ones(*shape, dtype=self.dtype)

    def data_ptr(self):
        return (id(self.store), self.idx[0] if self.idx else 0)

    # ---- storage-level view (pickling: DataTensor.__reduce_ex__ / torch._utils._rebuild_tensor_v2)
    def storage(self):
        return Storage(self.store, self.dtype)

    untyped_storage = storage

    def storage_offset(self):
        return self.idx[0] if self.idx else 0

    def stride(self, dim=None):
        """Strides (in elements) of this view of its storage; Unsupported when the view is not an affine index pattern."""
        nd = len(self.shape)
        strides = []
        for d in range(nd):
            if self.shape[d] <= 1:
                # torch reports the stride of a contiguous layout for singleton axes
                k = 1
                for e in self.shape[d + 1:]:
                    k *= max(e, 1)
                strides.append(k)
                continue
            step = 1
            for e in self.shape[d + 1:]:
                step *= e
            strides.append(self.idx[step] - self.idx[0])
        base = self.idx[0] if self.idx else 0
        import itertools as _it
        for q, pos in enumerate(_it.product(*[range(n) for n in self.shape])):
            if self.idx[q] != base + sum(i * st for i, st in zip(pos, strides)):
                raise Unsupported("stride() of a view that is not an affine index pattern")
        return tuple(strides) if dim is None else strides[dim]

    def is_contiguous(self, **k):
        base = self.idx[0] if self.idx else 0
        return all(v == base + q for q, v in enumerate(self.idx))

    def new_empty(self, *shape, **k):
        return empty(*shape, dtype=k.get("dtype", self.dtype))

    def new_full(self, shape, value, **k):
        return full(shape, value, dtype=k.get("dtype", self.dtype))

    def allclose(self, other, rtol=1e-5, atol=1e-8, **k):
        return allclose(self, other)

    def logical_and(self, o):
        return self._ew(o, lambda x, y: _truth(x) and _truth(y), out_dtype=BOOL)

    def logical_or(self, o):
        return self._ew(o, lambda x, y: _truth(x) or _truth(y), out_dtype=BOOL)

    def __and__(self, o): return self.logical_and(o)
    def __or__(self, o): return self.logical_or(o)

    def new_tensor(self, data):
        return tensor(data, dtype=self.dtype)

    def gather(self, dim, index) -> "STensor":
        """torch.gather: out[i][j][k] = self[i][j][index[i][j][k]] for dim == 2 (and correspondingly for every dim); concrete integer index."""
        dim %= self.ndim
        if index.ndim != self.ndim:
            raise InterpError("RuntimeError", "gather: index and input must have the same number of dimensions")
        if any(index.shape[d] > self.shape[d] for d in range(self.ndim) if d != dim):
            raise InterpError("RuntimeError", f"gather: size of index {tuple(index.shape)} exceeds input {tuple(self.shape)} apart from dimension {dim}")
        st = _strides(self.shape)
        src = self.flat()
        ivals = index.flat()
        vals = []
        for q, ix in enumerate(itertools.product(*[range(n) for n in index.shape])):
            v = to_rat(ivals[q])
            if not v.is_const():
                raise Unsupported("gather with a symbolic index")
            k = int(v.const_value())
            if not 0 <= k < self.shape[dim]:
                raise InterpError("RuntimeError", f"gather: index {k} is out of bounds for dimension {dim} with size {self.shape[dim]}")
            pos = list(ix)
            pos[dim] = k
            vals.append(src[sum(p_ * s_ for p_, s_ in zip(pos, st))])
        return STensor.from_flat(vals, list(index.shape), self.dtype)

    def repeat(self, *reps) -> "STensor":
        reps = list(_shape_args(reps))
        t = self
        while t.ndim < len(reps):
            t = t.unsqueeze(0)
        if len(reps) != t.ndim:
            raise InterpError("RuntimeError", "repeat dims")
        new_shape = [s * r for s, r in zip(t.shape, reps)]
        st = _strides(t.shape)
        vals = []
        for ix in itertools.product(*[range(s) for s in new_shape]):
            off = sum((ix[k] % t.shape[k]) * st[k] for k in range(len(new_shape)))
            vals.append(t.store[t.idx[off]])
        return STensor.from_flat(vals, new_shape, self.dtype)

    def roll(self, shifts, dims=None) -> "STensor":
        if dims is None:
            return self.flatten().roll(shifts, 0).reshape(self.shape)
        sh = list(shifts) if isinstance(shifts, (tuple, list)) else [shifts]
        dm = list(dims) if isinstance(dims, (tuple, list)) else [dims]
        t = self
        for s_, d in zip(sh, dm):
            d %= t.ndim
            n = t.shape[d]
            s_ = simplify(s_) % n if n else 0
            if s_:
                t = cat([t.narrow(d, n - s_, s_), t.narrow(d, 0, n - s_)], d)
        return t.clone() if t is self else t

    def index_select(self, dim, index) -> "STensor":
        ix = [simplify(v) for v in (index.flat() if isinstance(index, STensor) else index)]
        return cat([self.narrow(dim, i, 1) for i in ix], dim)

    def tensor_split(self, sections, dim=0):
        dim %= self.ndim
        n = self.shape[dim]
        if isinstance(sections, STensor):
            sections = sections.tolist()
        if isinstance(sections, int):
            k, r = divmod(n, sections)
            sizes = [k + 1] * r + [k] * (sections - r)
            out, s0 = [], 0
            for z in sizes:
                out.append(self.narrow(dim, s0, z))
                s0 += z
            return tuple(out)
        idx = [0] + [min(max(simplify(i), 0), n) for i in sections] + [n]
        return tuple(self.narrow(dim, a, max(b - a, 0)) for a, b in zip(idx[:-1], idx[1:]))

    def split_with_sizes(self, sizes, dim=0):
        return self.split(list(sizes), dim)

    def tile(self, *reps) -> "STensor":
        reps = list(_shape_args(reps))
        if len(reps) < self.ndim:
            reps = [1] * (self.ndim - len(reps)) + reps
        return self.repeat(*reps)

    def flip(self, *dims, **kw) -> "STensor":
        if "dims" in kw:
            dims = (kw["dims"],)
        dims = [d % self.ndim for d in _shape_args(dims)]
        st = _strides(self.shape)
        vals = []
        for ix in itertools.product(*[range(s) for s in self.shape]):
            off = sum(((self.shape[k] - 1 - ix[k]) if k in dims else ix[k]) * st[k] for k in range(self.ndim))
            vals.append(self.store[self.idx[off]])
        return STensor.from_flat(vals, self.shape, self.dtype)

    # ---- elementwise
    def _ew(self, o, f: Callable[[Any, Any], Any], out_dtype=None) -> "STensor":
        if isinstance(o, STensor):
            shape = broadcast_shapes(self.shape, o.shape)
            a = self.expand(shape).flat() if tuple(self.shape) != tuple(shape) else self.flat()
            b = o.expand(shape).flat() if tuple(o.shape) != tuple(shape) else o.flat()
            if self.dtype.is_floating_point and o.dtype.is_floating_point and self.dtype.name != o.dtype.name:
                # torch type promotion: a 0-dim tensor does not widen a dimensioned one of the same category
                if self.ndim == 0 and o.ndim > 0:
                    dt = out_dtype or o.dtype
                elif o.ndim == 0 and self.ndim > 0:
                    dt = out_dtype or self.dtype
                else:
                    dt = out_dtype or _promote(self.dtype, o.dtype)
                    narrow = self if dt.name == o.dtype.name else o
                    PRECISION_EVENTS.append((narrow.dtype.name, dt.name))
            else:
                dt = out_dtype or _promote(self.dtype, o.dtype)
            return STensor.from_flat([f(x, y) for x, y in zip(a, b)], shape, dt)
        dt = out_dtype or (self.dtype if not (isinstance(o, (Fraction, float, Rat)) and not self.dtype.is_floating_point
                                              and not (isinstance(o, Rat) and FACTS.is_integral(o))) else FLOAT)
        return STensor.from_flat([f(x, o) for x in self.flat()], self.shape, dt)

    def _ew_(self, o, f) -> "STensor":
        r = self._ew(o, f)
        if tuple(r.shape) != tuple(self.shape):
            raise InterpError("RuntimeError", "in-place op would change shape")
        for i, v in zip(self.idx, r.flat()):
            self.store[i] = v
        return self

    def _num(self, x):
        return to_rat(x)

    def add(self, o, alpha=1):
        return self._ew(o, lambda x, y: to_rat(x) + to_rat(y) * alpha)

    def sub(self, o, alpha=1):
        return self._ew(o, lambda x, y: to_rat(x) - to_rat(y) * alpha)

    def mul(self, o):
        return self._ew(o, lambda x, y: to_rat(x) * to_rat(y))

    def div(self, o, rounding_mode=None):
        if rounding_mode is not None:
            return self._ew(o, lambda x, y: _floor_div(to_rat(x), to_rat(y), rounding_mode))
        return self._ew(o, lambda x, y: to_rat(x) / to_rat(y), out_dtype=FLOAT if not self.dtype.is_floating_point else None)

    def pow(self, o):
        return self._ew(o, lambda x, y: spow(x, y))

    def neg(self):
        return STensor.from_flat([-to_rat(x) for x in self.flat()], self.shape, self.dtype)

    def _cmod(self, o, trunc: bool):
        def f(x, y):
            x, y = to_rat(x), to_rat(y)
            if not (x.is_const() and y.is_const()):
                raise Unsupported("modulo of symbolic values")
            a, b = x.const_value(), y.const_value()
            if b == 0:
                raise InterpError("ZeroDivisionError", "modulo by zero")
            if trunc:
                q = int(a / b)
                return Rat.of(a - q * b)
            return Rat.of(a % b)
        return self._ew(o, f)

    def where(self, cond, other):
        return where(cond, self, other)

    def fmod(self, o):
        return self._cmod(o, True)

    def remainder(self, o):
        return self._cmod(o, False)

    def __mod__(self, o): return self.remainder(o)
    def __floordiv__(self, o): return self.div(o, rounding_mode="floor")

    def square(self):
        return self.mul(self)

    def reciprocal(self):
        return STensor.from_flat([to_rat(x).inv() for x in self.flat()], self.shape, FLOAT)

    def reciprocal_(self):
        for i in self.idx:
            self.store[i] = to_rat(self.store[i]).inv()
        return self

    def _fn_(self, name):
        for i in self.idx:
            self.store[i] = sfunc(name, self.store[i])
        return self

    def exp_(self): return self._fn_("exp")
    def log_(self): return self._fn_("log")
    def tanh_(self): return self._fn_("tanh")
    def sin_(self): return self._fn_("sin")
    def cos_(self): return self._fn_("cos")

    def add_(self, o, alpha=1):
        return self._ew_(o, lambda x, y: to_rat(x) + to_rat(y) * alpha)

    def sub_(self, o, alpha=1):
        return self._ew_(o, lambda x, y: to_rat(x) - to_rat(y) * alpha)

    def mul_(self, o):
        return self._ew_(o, lambda x, y: to_rat(x) * to_rat(y))

    def div_(self, o):
        return self._ew_(o, lambda x, y: to_rat(x) / to_rat(y))

    def neg_(self):
        for i in self.idx:
            self.store[i] = -to_rat(self.store[i])
        return self

    def square_(self):
        return self.mul_(self.clone())

    def pow_(self, o):
        return self._ew_(o, lambda x, y: spow(x, y))

    def fill_(self, v):
        for i in self.idx:
            self.store[i] = to_rat(v)
        return self

    def zero_(self):
        return self.fill_(0)

    def copy_(self, o):
        return self._ew_(o, lambda x, y: y)

    def abs(self):
        return STensor.from_flat([sabs(x) for x in self.flat()], self.shape, self.dtype)

    def abs_(self):
        for i in self.idx:
            self.store[i] = sabs(self.store[i])
        return self

    absolute = abs
    absolute_ = abs_

    def sqrt_(self):
        for i in self.idx:
            self.store[i] = sfunc("sqrt", self.store[i])
        return self

    def sqrt(self):
        return STensor.from_flat([sfunc("sqrt", x) for x in self.flat()], self.shape, FLOAT)

    def _fn(self, name):
        return STensor.from_flat([sfunc(name, x) for x in self.flat()], self.shape, FLOAT)

    def sign(self):
        out = []
        for x in self.flat():
            sg = FACTS.sign(to_rat(x))
            if sg is None:
                sg = _numeric_sign(to_rat(x)) if not to_rat(x).is_zero() else 0
            if sg is None:
                raise Unsupported(f"sign of {x} undecided")
            out.append(Rat.of(sg))
        return STensor.from_flat(out, self.shape, self.dtype)

    def cos(self): return self._fn("cos")
    def sin(self): return self._fn("sin")
    def tan(self): return self._fn("tan")
    def tanh(self): return self._fn("tanh")
    def atanh(self): return self._fn("atanh")
    def exp(self): return self._fn("exp")
    def log(self): return self._fn("log")
    def acos(self): return self._fn("acos")
    def asin(self): return self._fn("asin")
    def atan(self): return self._fn("atan")

    def ceil(self):
        return STensor.from_flat([sround(x, "ceil") for x in self.flat()], self.shape, self.dtype)

    def floor(self):
        return STensor.from_flat([sround(x, "floor") for x in self.flat()], self.shape, self.dtype)

    def round(self, decimals=0):
        return STensor.from_flat([sround(x, "round") for x in self.flat()], self.shape, self.dtype)

    def clamp(self, min=None, max=None):
        def f(x):
            x = to_rat(x)
            if min is not None and compare("lt", x, min):
                return to_rat(min)
            if max is not None and compare("gt", x, max):
                return to_rat(max)
            return x
        return STensor.from_flat([f(x) for x in self.flat()], self.shape, self.dtype)

    clip = clamp

    def clamp_(self, min=None, max=None):
        r = self.clamp(min, max)
        for i, v in zip(self.idx, r.flat()):
            self.store[i] = v
        return self

    # comparisons
    def _cmp(self, o, op):
        return self._ew(o, lambda x, y: compare(op, x, y), out_dtype=BOOL)

    def eq(self, o): return self._cmp(o, "eq")
    def ne(self, o): return self._cmp(o, "ne")
    def lt(self, o): return self._cmp(o, "lt")
    def le(self, o): return self._cmp(o, "le")
    def gt(self, o): return self._cmp(o, "gt")
    def ge(self, o): return self._cmp(o, "ge")

    def logical_not(self):
        return STensor.from_flat([not _truth(x) for x in self.flat()], self.shape, BOOL)

    def isnan(self):
        # symbolic values stand for real numbers in the documented ranges
        return STensor.from_flat([False for _ in self.flat()], self.shape, BOOL)

    def isinf(self):
        return STensor.from_flat([False for _ in self.flat()], self.shape, BOOL)

    def all(self, *a, **k):
        if a or k:
            raise Unsupported("all(dim)")
        return STensor.from_flat([all(_truth(x) for x in self.flat())], [], BOOL)

    def any(self, *a, **k):
        if a or k:
            raise Unsupported("any(dim)")
        return STensor.from_flat([any(_truth(x) for x in self.flat())], [], BOOL)

    def __bool__(self):
        if self.numel() != 1:
            raise InterpError("RuntimeError", "Boolean value of Tensor with more than one value is ambiguous")
        return _truth(self.flat()[0])

    # reductions
    def _reduce(self, f, dim=None, keepdim=False, init=None):
        if dim is None:
            vals = self.flat()
            acc = init
            for v in vals:
                acc = v if acc is None else f(acc, v)
            return STensor.from_flat([acc], [], self.dtype)
        dims = [dim] if isinstance(dim, int) else list(dim)
        dims = sorted({d % self.ndim for d in dims})
        keep = [d for d in range(self.ndim) if d not in dims]
        st = _strides(self.shape)
        out_vals = []
        for ix in itertools.product(*[range(self.shape[d]) for d in keep]):
            acc = init
            for jx in itertools.product(*[range(self.shape[d]) for d in dims]):
                off = sum(i * st[d] for i, d in zip(ix, keep)) + sum(j * st[d] for j, d in zip(jx, dims))
                v = self.store[self.idx[off]]
                acc = v if acc is None else f(acc, v)
            out_vals.append(acc)
        shape = [self.shape[d] for d in keep]
        r = STensor.from_flat(out_vals, shape, self.dtype)
        if keepdim:
            for d in dims:
                r = r.unsqueeze(d)
        return r

    def sum(self, dim=None, keepdim=False, dtype=None):
        dt = INT if self.dtype is BOOL else None
        t = self.type(INT) if self.dtype is BOOL else self
        return t._reduce(lambda a, b: to_rat(a) + to_rat(b), dim, keepdim, Rat.of(0))

    def prod(self, dim=None, keepdim=False):
        return self._reduce(lambda a, b: to_rat(a) * to_rat(b), dim, keepdim, Rat.of(1))

    def mean(self, dim=None, keepdim=False):
        s = self.sum(dim, keepdim)
        n = self.numel() // max(s.numel(), 1)
        return s.div(n)

    def max(self, *a, **k):
        if len(a) == 1 and isinstance(a[0], STensor) and not k:  # torch.max(a, b): elementwise maximum
            return self._ew(a[0], lambda x, y: x if compare("ge", x, y) else y)
        if a or k:
            raise Unsupported("max(dim)")
        return self._reduce(lambda x, y: x if compare("ge", x, y) else y)

    def min(self, *a, **k):
        if len(a) == 1 and isinstance(a[0], STensor) and not k:  # torch.min(a, b): elementwise minimum
            return self._ew(a[0], lambda x, y: x if compare("le", x, y) else y)
        if a or k:
            raise Unsupported("min(dim)")
        return self._reduce(lambda x, y: x if compare("le", x, y) else y)

    def norm(self, p=2, dim=None, keepdim=False, ord=None, **_k):
        if ord is not None:  # torch.linalg.norm / vector_norm spelling
            p = ord
        if p != 2:
            raise Unsupported("norm p != 2")
        return self.square().sum(dim, keepdim).sqrt()

    def det(self):
        if self.ndim > 2:
            lead = list(self.shape[:-2])
            flat = self.reshape([-1] + list(self.shape[-2:]))
            return STensor.from_flat([flat[i].det().flat()[0] for i in range(flat.shape[0])], lead)
        if self.ndim != 2 or self.shape[0] != self.shape[1]:
            raise Unsupported("det of non-square")
        n = self.shape[0]
        m = self.tolist()
        total = Rat.of(0)
        for perm in itertools.permutations(range(n)):
            sgn = 1
            for i in range(n):
                for j in range(i + 1, n):
                    if perm[i] > perm[j]:
                        sgn = -sgn
            term = Rat.of(sgn)
            for i in range(n):
                term = term * to_rat(m[i][perm[i]])
            total = total + term
        return STensor.from_flat([total], [])

    def matmul(self, o: "STensor") -> "STensor":
        return matmul(self, o)

    mm = matmul
    bmm = matmul

    def dot(self, o):
        return self.mul(o).sum()

    def cross(self, o, dim=-1):
        if self.shape[-1] != 3 or dim not in (-1, self.ndim - 1):
            raise Unsupported("cross")
        a = [self[..., i] for i in range(3)]
        b = [o[..., i] for i in range(3)]
        return stack([a[1].mul(b[2]).sub(a[2].mul(b[1])), a[2].mul(b[0]).sub(a[0].mul(b[2])),
                      a[0].mul(b[1]).sub(a[1].mul(b[0]))], dim=-1)

    def inverse(self):
        return inverse(self)

    def unique(self, sorted=True, return_inverse=False, return_counts=False, dim=None):
        """Distinct values in ascending order (torch sorts; decidable orderings only)."""
        if return_inverse or return_counts or dim is not None:
            raise Unsupported("unique(return_inverse/return_counts/dim)")
        vals: List[Any] = []
        for v in self.flat():
            v = to_rat(v)
            if not any(v.equals(w) for w in vals):
                vals.append(v)
        import functools as _ft
        vals.sort(key=_ft.cmp_to_key(lambda a, b: -1 if compare("lt", a, b) else 1))
        return STensor.from_flat(vals, [len(vals)], self.dtype)

    def scatter_(self, dim, index, value, **k):
        """self[..., index[...], ...] = value along ``dim`` (concrete integer index tensor; value scalar or tensor of index's shape)."""
        dim = int(dim) % self.ndim
        if list(index.shape) != [n if d != dim else index.shape[d] for d, n in enumerate(self.shape)] and index.ndim != self.ndim:
            raise InterpError("RuntimeError", "scatter_: index rank differs from self")
        if index.dtype.is_floating_point:
            raise InterpError("RuntimeError", "scatter_(): Expected dtype int64 for index")
        import itertools as _it
        src = value if isinstance(value, STensor) else None
        for pos in _it.product(*[range(n) for n in index.shape]):
            k_ = simplify(index[pos].flat()[0])
            if not isinstance(k_, int):
                raise Unsupported("scatter_ with a symbolic index")
            if not 0 <= k_ < self.shape[dim]:
                raise InterpError("RuntimeError", f"index {k_} is out of bounds for dimension {dim} with size {self.shape[dim]}")
            tgt = tuple(k_ if d == dim else pos[d] for d in range(self.ndim))
            self[tgt] = (src[pos].flat()[0] if src is not None else value)
        return self

    def scatter(self, dim, index, value, **k):
        return self.clone().scatter_(dim, index, value, **k)

    def requires_grad_(self, flag=True):
        self.requires_grad = flag
        return self

    # python operators
    def __add__(self, o): return self.add(o)
    def __radd__(self, o): return self.add(o)
    def __sub__(self, o): return self.sub(o)
    def __rsub__(self, o): return self.neg().add(o)
    def __mul__(self, o): return self.mul(o)
    def __rmul__(self, o): return self.mul(o)
    def __truediv__(self, o): return self.div(o)
    def __rtruediv__(self, o): return self.reciprocal().mul(o)
    def __pow__(self, o): return self.pow(o)
    def __neg__(self): return self.neg()
    def __iadd__(self, o): return self.add_(o)
    def __isub__(self, o): return self.sub_(o)
    def __imul__(self, o): return self.mul_(o)
    def __itruediv__(self, o): return self.div_(o)
    def __matmul__(self, o): return matmul(self, o)
    def __eq__(self, o):  # type: ignore
        # torch wraps the TypeError of an unsupported operand type into NotImplemented (so `...` == tensor is False, list.index(...) works)
        if o is Ellipsis or o is None or isinstance(o, (str, slice, type)):
            return NotImplemented
        return self.eq(o)

    def __ne__(self, o):  # type: ignore
        if o is Ellipsis or o is None or isinstance(o, (str, slice, type)):
            return NotImplemented
        return self.ne(o)
    def __lt__(self, o): return self.lt(o)
    def __le__(self, o): return self.le(o)
    def __gt__(self, o): return self.gt(o)
    def __ge__(self, o): return self.ge(o)
    def __invert__(self): return self.logical_not()
    def __hash__(self): return id(self)
    def __float__(self): raise Unsupported("float(tensor) via python protocol")


class InterpError(Exception):
    """An exception the *interpreted program* raises (ValueError, RuntimeError from torch semantics, ...)."""

    def __init__(self, exc_type: str, msg: str = ""):
        super().__init__(f"{exc_type}: {msg}")
        self.exc_type = exc_type
        self.msg = msg


def _truth(x) -> bool:
    if isinstance(x, bool):
        return x
    r = to_rat(x)
    if r.is_zero():
        return False
    if r.is_const():
        return True
    s = FACTS.sign(r)
    if s is None:
        FACTS.generic_inequalities.append(f"{r} != 0")
        return True
    return s != 0


_FLOAT_WIDTH = {"float16": 16, "bfloat16": 16, "float32": 32, "float64": 64}
GRAPH_EVENTS: List[Tuple[str, int]] = []  # (blocker, id of the operand's storage): detach() / .data taken of a tensor while an obligation ran
ROUND_EVENTS: List[Any] = []  # decimals of every round-to-decimals the library applied while an obligation ran (values stay exact, see ROUND_EXACT)
ROUND_EXACT = [0]  # > 0 while deepali.core.math.round_decimals is interpreted: torch.round is then the identity on values (fresh tensor or out=)
WIDENING_EVENTS: List[Tuple[str, str]] = []  # a dimensioned narrower-float tensor with non-integer entries cast to a wider float type (consulted by T4.dtype)
PRECISION_EVENTS: List[Tuple[str, str]] = []  # (narrow, wide): a tensor computed in a narrower float type entered wider arithmetic


def _promote(a: DType, b: DType) -> DType:
    if a.is_floating_point and b.is_floating_point:
        wa, wb = _FLOAT_WIDTH.get(a.name, 32), _FLOAT_WIDTH.get(b.name, 32)
        return a if wa >= wb else b
    if a.is_floating_point:
        return a
    if b.is_floating_point:
        return b
    if a is BOOL:
        return b
    return a


def _shape_args(shape) -> List[int]:
    if len(shape) == 1 and isinstance(shape[0], (tuple, list)):
        shape = shape[0]
    out = []
    for s in shape:
        if isinstance(s, STensor):
            s = s.item()
        s = simplify(s)
        if not isinstance(s, int):
            raise Unsupported(f"symbolic shape entry {s}")
        out.append(s)
    return out


def broadcast_shapes(a, b) -> List[int]:
    a, b = list(a), list(b)
    n = max(len(a), len(b))
    a = [1] * (n - len(a)) + a
    b = [1] * (n - len(b)) + b
    out = []
    for x, y in zip(a, b):
        if x == y or y == 1:
            out.append(x)
        elif x == 1:
            out.append(y)
        else:
            raise InterpError("RuntimeError", f"shapes {a} and {b} not broadcastable")
    return out


def spow(x, y):
    y = simplify(y)
    x = to_rat(x)
    if isinstance(y, Rat):
        if y.is_const():
            y = y.const_value()
        else:
            raise Unsupported("symbolic exponent")
    y = Fraction(y)
    if y.denominator == 1:
        return x ** int(y)
    if y == Fraction(1, 2):
        return sfunc("sqrt", x)
    raise Unsupported(f"exponent {y}")


def _floor_div(x: Rat, y: Rat, mode: str):
    q = x / y
    if q.is_const():
        import math
        v = q.const_value()
        return Rat.of(math.floor(v) if mode == "floor" else int(v))
    raise Unsupported("symbolic floor division")


# ---- opaque functions as atoms --------------------------------------------------------------------------------
_FUNC_ATOMS: Dict[str, Rat] = {}
_INVERSE = {"tanh": "atanh", "atanh": "tanh", "exp": "log", "log": "exp", "tan": "atan", "atan": "tan"}
TRIG_ATOMS: Dict[str, Tuple[str, str]] = {}  # angle atom -> (cos atom, sin atom)


def declare_angle(name: str) -> Rat:
    """Declare an angle atom whose cos/sin are ring atoms c_<name>, s_<name> with s^2 = 1 - c^2."""
    from .ring import declare_square
    c, s = f"c_{name}", f"s_{name}"
    TRIG_ATOMS[name] = (c, s)
    declare_square(s, Poly.const(1) - Poly.atom(c) ** 2)
    return Rat.atom(name)


def sfunc(name: str, x, *more) -> Rat:
    x = to_rat(x)
    args = [x] + [to_rat(m) for m in more]
    if name in ("cos", "sin"):
        # +-angle atom
        for sign in (1, -1):
            y = x * sign
            if y.den.is_const() and len(y.num.terms) == 1:
                (m, c), = y.num.terms.items()
                if c == 1 and len(m) == 1 and m[0][1] == 1 and m[0][0] in TRIG_ATOMS:
                    ca, sa = TRIG_ATOMS[m[0][0]]
                    return Rat.atom(ca) if name == "cos" else Rat.atom(sa) * sign
        if x.is_zero():
            return Rat.of(1 if name == "cos" else 0)
        # cos / sin of an inverse trigonometric atom: cos(acos c) = c, sin(acos c) = sqrt(1 - c^2) >= 0 (acos in [0, pi]);
        # sin(asin c) = c, cos(asin c) = sqrt(1 - c^2) >= 0 (asin in [-pi/2, pi/2])
        if x.den.is_const() and len(x.num.terms) == 1:
            (m_, c_), = x.num.terms.items()
            if c_ == x.den.const_value() and len(m_) == 1 and m_[0][1] == 1 and m_[0][0] in _FUNC_ARG:
                an = m_[0][0]
                if an.startswith("acos("):
                    carg = _FUNC_ARG[an]
                    return carg if name == "cos" else sfunc("sqrt", Rat.of(1) - carg * carg)
                if an.startswith("asin("):
                    carg = _FUNC_ARG[an]
                    return carg if name == "sin" else sfunc("sqrt", Rat.of(1) - carg * carg)
        # general argument: paired atoms cos(y), sin(y) with sin^2 = 1 - cos^2, for the sign-normalised argument y = +-x
        sign = 1
        if x.den.is_const() and not x.num.is_zero():
            _, lc = x.num.lead()
            if lc * x.den.const_value() < 0:
                sign = -1
        y = x * sign
        ck, sk = f"cos({y!r})", f"sin({y!r})"
        if ck not in _FUNC_ATOMS:
            from .ring import declare_square
            _FUNC_ATOMS[ck] = Rat.atom(ck)
            _FUNC_ATOMS[sk] = Rat.atom(sk)
            _FUNC_ARG[ck] = y
            _FUNC_ARG[sk] = y
            declare_square(sk, Poly.const(1) - Poly.atom(ck) ** 2)
        return _FUNC_ATOMS[ck] if name == "cos" else _FUNC_ATOMS[sk] * sign
    if x.is_zero() and name in ("tanh", "atanh", "tan", "atan", "asin", "sqrt", "sinh", "log1p", "expm1"):
        return Rat.of(0)
    if x.is_zero() and name in ("exp", "cosh"):
        return Rat.of(1)
    if name == "log" and x.is_const() and x.const_value() == 1:
        return Rat.of(0)
    if name == "sqrt" and x.is_const():
        v = x.const_value()
        import math
        if v >= 0:
            n, d = math.isqrt(v.numerator), math.isqrt(v.denominator)
            if n * n == v.numerator and d * d == v.denominator:
                return Rat.of(Fraction(n, d))
    if name == "sqrt" and not x.is_const():
        r = _monomial_sqrt(x)
        if r is not None:
            sg = FACTS.sign(r)
            if sg is not None:
                return r if sg >= 0 else -r
    # inverse pairs f(g(x)) -> x
    inv = _INVERSE.get(name)
    if inv is not None and len(args) == 1 and x.den.is_const() and len(x.num.terms) == 1:
        (m, c), = x.num.terms.items()
        if c == x.den.const_value() and len(m) == 1 and m[0][1] == 1:
            a = m[0][0]
            if a.startswith(inv + "(") and a.endswith(")"):
                return _FUNC_ARG[a]
    key = f"{name}(" + ",".join(repr(a) for a in args) + ")"
    if key not in _FUNC_ATOMS:
        _FUNC_ATOMS[key] = Rat.atom(key)
        _FUNC_ARG[key] = x
        _FUNC_ARGS[key] = list(args)
        if name == "sqrt":
            from .ring import declare_square
            if x.den.is_const():
                declare_square(key, x.num.scale(1 / x.den.const_value()))
            FACTS.declare_positive(_FUNC_ATOMS[key])
        if name == "acos" and x.is_const() and -1 <= x.const_value() < 1:
            FACTS.declare_positive(_FUNC_ATOMS[key])  # acos(c) in (0, pi] for c < 1
        if name == "asin" and x.is_const() and 0 < x.const_value() <= 1:
            FACTS.declare_positive(_FUNC_ATOMS[key])
    return _FUNC_ATOMS[key]


_FUNC_ARG: Dict[str, Rat] = {}
_FUNC_ARGS: Dict[str, List[Rat]] = {}


def _monomial_sqrt(x: Rat) -> Optional[Rat]:
    """r with r^2 == x when numerator and denominator are single terms with even exponents and square coefficients."""
    import math

    def half(p: Poly) -> Optional[Rat]:
        if len(p.terms) != 1:
            return None
        (m, c), = p.terms.items()
        c = Fraction(c)
        if c <= 0:
            return None
        n, d = math.isqrt(c.numerator), math.isqrt(c.denominator)
        if n * n != c.numerator or d * d != c.denominator:
            return None
        out = Rat.of(Fraction(n, d))
        for a, e in m:
            if e % 2:
                return None
            out = out * (Rat.atom(a) ** (e // 2))
        return out
    a, b = half(x.num), half(x.den)
    if a is None or b is None:
        return None
    return a / b


def _reset_caches() -> None:
    _FUNC_ATOMS.clear()
    _FUNC_ARG.clear()
    _FUNC_ARGS.clear()
    TRIG_ATOMS.clear()


from . import ring as _ring
_ring._RESET_HOOKS.append(_reset_caches)


def sabs(x) -> Rat:
    x = to_rat(x)
    s = FACTS.sign(x)
    if s is None:
        return sfunc("abs", x)
    return x if s >= 0 else -x


def sround(x, mode: str) -> Rat:
    x = to_rat(x)
    if FACTS.is_integral(x):
        return x
    if x.is_const():
        import math
        v = x.const_value()
        if mode == "ceil":
            return Rat.of(math.ceil(v))
        if mode == "floor":
            return Rat.of(math.floor(v))
        return Rat.of(round(v))
    raise Unsupported(f"{mode} of non-integral symbolic value {x}")


# ---- torch namespace functions --------------------------------------------------------------------------------
def _dt(kwargs) -> Optional[DType]:
    d = kwargs.get("dtype")
    return d if isinstance(d, DType) else None


def tensor(data, dtype=None, device=None, requires_grad=False) -> STensor:
    if isinstance(data, STensor):
        return data.clone().type(dtype) if isinstance(dtype, DType) else data.clone()
    if isinstance(data, (list, tuple)):
        return STensor.from_nested(data, dtype if isinstance(dtype, DType) else None)
    d = dtype if isinstance(dtype, DType) else None
    if d is None:
        d = BOOL if isinstance(data, bool) else INT if isinstance(data, int) else FLOAT
    return STensor.from_flat([data], [], d)


def as_tensor(data, dtype=None, device=None) -> STensor:
    if isinstance(data, STensor):
        return data.type(dtype) if isinstance(dtype, DType) and dtype != data.dtype else data
    return tensor(data, dtype=dtype)


def zeros(*shape, dtype=None, device=None, size=None, **k) -> STensor:
    shape = _shape_args(shape if size is None else (size,))
    return STensor.from_flat([0] * _numel(shape), shape, dtype if isinstance(dtype, DType) else FLOAT)


def ones(*shape, dtype=None, device=None, size=None, **k) -> STensor:
    shape = _shape_args(shape if size is None else (size,))
    return STensor.from_flat([1] * _numel(shape), shape, dtype if isinstance(dtype, DType) else FLOAT)


def empty(*shape, dtype=None, device=None, size=None, **k) -> STensor:
    shape = _shape_args(shape if size is None else (size,))
    return STensor.from_flat([Rat.atom(f"uninit{i}") for i in range(_numel(shape))], shape,
                             dtype if isinstance(dtype, DType) else FLOAT)


def full(shape, value, dtype=None, device=None) -> STensor:
    shape = _shape_args((shape,))
    return STensor.from_flat([value] * _numel(shape), shape, dtype if isinstance(dtype, DType) else None)


def eye(n, m=None, dtype=None, device=None) -> STensor:
    n = simplify(n)
    m = n if m is None else simplify(m)
    return STensor.from_flat([1 if i == j else 0 for i in range(n) for j in range(m)], [n, m],
                             dtype if isinstance(dtype, DType) else FLOAT)


def diag(t: STensor) -> STensor:
    if t.ndim == 1:
        n = t.shape[0]
        vals = t.flat()
        return STensor.from_flat([vals[i] if i == j else 0 for i in range(n) for j in range(n)], [n, n], t.dtype)
    if t.ndim == 2:
        return t.diagonal().clone()
    raise InterpError("RuntimeError", "diag expects 1D or 2D")


def arange(*args, dtype=None, device=None) -> STensor:
    vals = [simplify(a.item() if isinstance(a, STensor) else a) for a in args]
    if any(isinstance(v, Rat) for v in vals):
        raise Unsupported("arange with symbolic bounds")
    if len(vals) == 1:
        start, stop, step = 0, vals[0], 1
    elif len(vals) == 2:
        start, stop, step = vals[0], vals[1], 1
    else:
        start, stop, step = vals
    import math
    n = max(0, math.ceil(Fraction(stop - start) / Fraction(step)))
    out = [start + i * step for i in range(n)]
    d = dtype if isinstance(dtype, DType) else (INT if all(isinstance(v, int) for v in (start, stop, step)) else FLOAT)
    return STensor.from_flat(out, [n], d)


def linspace(start, end, steps, dtype=None, device=None, requires_grad=False, **_k) -> STensor:
    start, end, steps = to_rat(start), to_rat(end), simplify(steps)
    if steps == 1:
        return STensor.from_flat([start], [1], FLOAT)
    return STensor.from_flat([start + (end - start) * Fraction(i, steps - 1) for i in range(steps)], [steps], FLOAT)


def cat(tensors, dim=0) -> STensor:
    ts = list(tensors)
    if not ts:
        raise InterpError("RuntimeError", "cat of empty list")
    nd = ts[0].ndim
    dim %= nd
    for t in ts:
        if t.ndim != nd or any(t.shape[d] != ts[0].shape[d] for d in range(nd) if d != dim):
            raise InterpError("RuntimeError", f"cat: shape mismatch {[tuple(t.shape) for t in ts]}")
    shape = list(ts[0].shape)
    shape[dim] = sum(t.shape[dim] for t in ts)
    vals = []
    for ix in itertools.product(*[range(s) for s in shape]):
        k = ix[dim]
        for t in ts:
            if k < t.shape[dim]:
                jx = list(ix)
                jx[dim] = k
                st = _strides(t.shape)
                vals.append(t.store[t.idx[sum(a * b for a, b in zip(jx, st))]])
                break
            k -= t.shape[dim]
    dt = ts[0].dtype
    for t in ts[1:]:
        dt = _promote(dt, t.dtype)
    return STensor.from_flat(vals, shape, dt)


def stack(tensors, dim=0) -> STensor:
    ts = list(tensors)
    nd = ts[0].ndim + 1
    dim %= nd
    return cat([t.unsqueeze(dim) for t in ts], dim)


def matmul(a: STensor, b: STensor) -> STensor:
    if a.ndim == 0 or b.ndim == 0:
        raise InterpError("RuntimeError", "matmul of 0-d")
    a1 = a.ndim == 1
    b1 = b.ndim == 1
    A = a.unsqueeze(0) if a1 else a
    B = b.unsqueeze(1) if b1 else b
    if A.shape[-1] != B.shape[-2]:
        raise InterpError("RuntimeError", f"mat1 and mat2 shapes cannot be multiplied ({tuple(A.shape)} and {tuple(B.shape)})")
    batch = broadcast_shapes(A.shape[:-2], B.shape[:-2])
    A = A.expand(batch + list(A.shape[-2:]))
    B = B.expand(batch + list(B.shape[-2:]))
    n, k, m = A.shape[-2], A.shape[-1], B.shape[-1]
    Af, Bf = A.flat(), B.flat()
    nb = _numel(batch)
    vals = []
    for bi in range(nb):
        for i in range(n):
            for j in range(m):
                acc = Rat.of(0)
                for l in range(k):
                    x = Af[bi * n * k + i * k + l]
                    y = Bf[bi * k * m + l * m + j]
                    if not (x.is_zero() or y.is_zero()):
                        acc = acc + x * y
                vals.append(acc)
    out = STensor.from_flat(vals, batch + [n, m], _promote(a.dtype, b.dtype))
    if a1:
        out = out.squeeze(-2)
    if b1:
        out = out.squeeze(-1)
    return out


def mm(a, b):
    if a.ndim != 2 or b.ndim != 2:
        raise InterpError("RuntimeError", "mm expects 2D tensors")
    return matmul(a, b)


def bmm(a, b):
    if a.ndim != 3 or b.ndim != 3:
        raise InterpError("RuntimeError", f"bmm expects 3D tensors, got {a.ndim}D and {b.ndim}D")
    if a.shape[0] != b.shape[0]:
        raise InterpError("RuntimeError", "bmm batch mismatch")
    return matmul(a, b)


def inverse(t: STensor) -> STensor:
    if t.ndim > 2:
        lead = t.shape[:-2]
        flat = t.reshape([-1] + list(t.shape[-2:]))
        return stack([inverse(flat[i]) for i in range(flat.shape[0])], 0).reshape(list(lead) + list(t.shape[-2:]))
    n = t.shape[0]
    if t.ndim != 2 or t.shape[1] != n:
        raise InterpError("RuntimeError", "inverse of non-square")
    m = [[to_rat(x) for x in row] for row in t.tolist()]
    det = t.det().flat()[0]
    if det.is_zero():
        raise InterpError("RuntimeError", "singular matrix")

    def minor(i, j):
        sub = [[m[r][c] for c in range(n) if c != j] for r in range(n) if r != i]
        if not sub:
            return Rat.of(1)
        return STensor.from_nested(sub).det().flat()[0]
    vals = []
    for i in range(n):
        for j in range(n):
            c = minor(j, i)
            if (i + j) % 2:
                c = -c
            vals.append(c / det)
    return STensor.from_flat(vals, [n, n])


def where(cond, a=None, b=None):
    if a is None:
        raise Unsupported("where(cond)")
    if not isinstance(cond, STensor):
        cond = tensor(cond)
    A = a if isinstance(a, STensor) else tensor(a)
    B = b if isinstance(b, STensor) else tensor(b)
    shape = broadcast_shapes(broadcast_shapes(cond.shape, A.shape), B.shape)
    c = cond.expand(shape).flat()
    x = A.expand(shape).flat()
    y = B.expand(shape).flat()
    return STensor.from_flat([p if _truth(q) else r for q, p, r in zip(c, x, y)], shape, _promote(A.dtype, B.dtype))


def allclose(a, b, rtol=1e-5, atol=1e-8, **k) -> bool:
    A = a if isinstance(a, STensor) else tensor(a)
    B = b if isinstance(b, STensor) else tensor(b)
    shape = broadcast_shapes(A.shape, B.shape)
    return all(to_rat(x).equals(to_rat(y)) for x, y in zip(A.expand(shape).flat(), B.expand(shape).flat()))


def linear(x: STensor, w: STensor, bias=None) -> STensor:
    out = matmul(x, w.t() if w.ndim == 2 else w)
    if bias is not None:
        out = out.add(bias)
    return out


def atan2(y, x):
    Y = y if isinstance(y, STensor) else tensor(y)
    X = x if isinstance(x, STensor) else tensor(x)
    shape = broadcast_shapes(Y.shape, X.shape)
    return STensor.from_flat([sfunc("atan2", p, q) for p, q in zip(Y.expand(shape).flat(), X.expand(shape).flat())], shape, FLOAT)


def triu_indices(row, col, offset=0, **k) -> STensor:
    r, c = [], []
    for i in range(row):
        for j in range(col):
            if j - i >= offset:
                r.append(i)
                c.append(j)
    return STensor.from_nested([r, c], INT)


def meshgrid(*ts, indexing="ij"):
    if len(ts) == 1 and isinstance(ts[0], (list, tuple)):
        ts = tuple(ts[0])
    if indexing != "ij":
        raise Unsupported("meshgrid indexing != ij")
    shape = [t.shape[0] for t in ts]
    out = []
    for k, t in enumerate(ts):
        v = t
        for d in range(len(ts)):
            if d < k:
                v = v.unsqueeze(0)
            elif d > k:
                v = v.unsqueeze(-1)
        out.append(v.expand(shape))
    return tuple(out)


# ---- torch.nn.functional.grid_sample: exact on lattice hits, uninterpreted elsewhere; every call is recorded ----------
GRID_SAMPLE_CALLS: List[Dict[str, Any]] = []


def grid_sample(input: STensor, grid: STensor, mode="bilinear", padding_mode="zeros", align_corners=None) -> STensor:
    """Model of F.grid_sample: (N, C, *spatial) sampled at grid (N, *out, D) of normalised coords in (x, y, z) order.

    Documented semantics (trusted): unnormalise x -> ((x + 1) * n - 1) / 2 (align_corners=False) or (x + 1) / 2 * (n - 1)
    (True); a sample that falls exactly on a voxel centre returns that voxel for every interpolation mode. Any other sample
    (fractional or symbolic coordinate) is an opaque value ``gs<call>_<pos>`` — never interpreted further.
    """
    if align_corners is None:
        align_corners = False
    import hashlib
    # opaque results are named by a digest of the arguments: the same sampling of the same data is the same value
    # (per channel and point: the value depends only on the channel's data, the point, the modes and the flag)
    tail = repr((mode, padding_mode, bool(align_corners)))
    _chd: Dict[Tuple[int, int], str] = {}

    def point_atom(b: int, c: int, pt) -> Rat:
        if (b, c) not in _chd:
            _chd[(b, c)] = hashlib.md5(repr((input[b, c].tolist(), list(input.shape[2:]), tail)).encode()).hexdigest()[:10]
        return Rat.atom("gs" + hashlib.md5((_chd[(b, c)] + repr([str(to_rat(x)) for x in pt])).encode()).hexdigest()[:12])
    GRID_SAMPLE_CALLS.append({"input": input, "grid": grid, "mode": mode, "padding_mode": padding_mode, "align_corners": align_corners})
    N, C = input.shape[0], input.shape[1]
    spatial = list(input.shape[2:])
    D = len(spatial)
    if grid.shape[0] != N or grid.shape[-1] != D or grid.ndim != D + 2:
        raise InterpError("RuntimeError", f"grid_sample: input {tuple(input.shape)} vs grid {tuple(grid.shape)}")
    out_sp = list(grid.shape[1:-1])
    vals = []
    inp = input.tolist()
    g = grid.reshape([N, -1, D]).tolist()
    npos = _numel(out_sp)
    const_ch = {}
    for b in range(N):
        for c in range(C):
            fl = input[b, c].flat()
            if fl and all(to_rat(v).equals(to_rat(fl[0])) for v in fl[1:]):
                c0 = to_rat(fl[0])
                if padding_mode == "border" or c0.is_zero():
                    const_ch[(b, c)] = c0  # interpolating a constant channel gives that constant (border) / zero stays zero
    for b in range(N):
        per_c = [[] for _ in range(C)]
        for k in range(npos):
            idx = []
            exact = True
            for d in range(D):
                x = to_rat(g[b][k][d])
                n = spatial[D - 1 - d]  # coordinate d (x first) indexes the last spatial dim first
                u = ((x + 1) * n - 1) / 2 if not align_corners else (x + 1) / 2 * (n - 1)
                if u.is_const() and u.const_value().denominator == 1 and 0 <= u.const_value() < n:
                    idx.append(int(u.const_value()))
                else:
                    exact = False
                    break
            for c in range(C):
                if (b, c) in const_ch and not exact:
                    per_c[c].append(const_ch[(b, c)])
                    continue
                if exact:
                    v = inp[b][c]
                    for d in reversed(range(D)):
                        v = v[idx[d]]
                    per_c[c].append(v)
                else:
                    per_c[c].append(point_atom(b, c, g[b][k]))
        for c in range(C):
            vals.extend(per_c[c])
    return STensor.from_flat(vals, [N, C] + out_sp, input.dtype if input.dtype.is_floating_point else FLOAT)


def fpad(input: STensor, pad, mode="constant", value=None) -> STensor:
    """Model of F.pad: pad = (last_low, last_high, second_last_low, ...); negative entries crop."""
    pad = [simplify(p.item() if isinstance(p, STensor) else p) for p in pad]
    if any(not isinstance(p, int) for p in pad):
        raise Unsupported(f"pad with non-integer margins {pad}")
    if len(pad) % 2 or len(pad) // 2 > input.ndim:
        raise InterpError("RuntimeError", "pad: padding length must be even and at most 2 * ndim")
    nd = input.ndim
    lows = [0] * nd
    highs = [0] * nd
    for k in range(len(pad) // 2):
        d = nd - 1 - k
        lows[d], highs[d] = pad[2 * k], pad[2 * k + 1]
    new_shape = [input.shape[d] + lows[d] + highs[d] for d in range(nd)]
    if any(n < 0 for n in new_shape):
        raise InterpError("RuntimeError", "pad: resulting size negative")
    if mode not in ("constant", "replicate", "reflect", "circular"):
        raise Unsupported(f"pad mode {mode}")
    fill = to_rat(0 if value is None else value)
    st = _strides(input.shape)
    vals = []
    for ix in itertools.product(*[range(n) for n in new_shape]):
        off = 0
        inside = True
        for d in range(nd):
            i = ix[d] - lows[d]
            n = input.shape[d]
            if not 0 <= i < n:
                if mode == "constant":
                    inside = False
                    break
                if mode == "replicate":
                    i = min(max(i, 0), n - 1)
                elif mode == "reflect":
                    if n == 1:
                        i = 0
                    else:
                        period = 2 * (n - 1)
                        i = i % period
                        if i >= n:
                            i = period - i
                else:
                    i = i % n
            off += i * st[d]
        vals.append(input.store[input.idx[off]] if inside else fill)
    return STensor.from_flat(vals, new_shape, input.dtype)


def avg_pool(input: STensor, kernel_size, stride=None, padding=0, ceil_mode=False, count_include_pad=True, divisor_override=None) -> STensor:
    """Model of F.avg_poolNd for (N, C, *spatial) input (documented semantics): implicit zero padding of `padding` samples on both
    sides; the divisor is divisor_override, else the number of window elements inside the padded extent (count_include_pad) or
    inside the input (otherwise)."""
    D = input.ndim - 2

    def tup(x):
        if isinstance(x, STensor):
            x = x.tolist()
        if isinstance(x, (tuple, list)):
            return [simplify(v) for v in x]
        return [simplify(x)] * D
    k = tup(kernel_size)
    s = k if stride is None else tup(stride)
    p = tup(padding)
    if any(2 * pp > kk for pp, kk in zip(p, k)):
        raise InterpError("RuntimeError", "pad should be at most half of kernel size")
    sp = list(input.shape[2:])
    import math
    out = []
    for n, kk, ss, pp in zip(sp, k, s, p):
        o = Fraction(n + 2 * pp - kk, ss) + 1
        o = math.ceil(o) if ceil_mode else math.floor(o)
        if ceil_mode and (o - 1) * ss >= n + pp:
            o -= 1
        out.append(max(o, 0))
    vals = []
    inp = input
    for b in range(input.shape[0]):
        for c in range(input.shape[1]):
            for ix in itertools.product(*[range(o) for o in out]):
                acc = Rat.of(0)
                cnt_in = 0
                cnt_pad = 0
                for jx in itertools.product(*[range(kk) for kk in k]):
                    pos = [i * ss - pp + j for i, ss, pp, j in zip(ix, s, p, jx)]
                    if all(-pp <= q < n + pp for q, n, pp in zip(pos, sp, p)):
                        cnt_pad += 1
                    if all(0 <= q < n for q, n in zip(pos, sp)):
                        acc = acc + to_rat(inp[(b, c) + tuple(pos)].flat()[0])
                        cnt_in += 1
                if divisor_override is not None:
                    div = simplify(divisor_override)
                else:
                    div = cnt_pad if count_include_pad else cnt_in
                vals.append(acc / div if div else Rat.of(0))
    return STensor.from_flat(vals, [input.shape[0], input.shape[1]] + out, FLOAT)


INTERPOLATE_CALLS: List[Dict[str, Any]] = []


def interpolate(input: STensor, size=None, scale_factor=None, mode="nearest", align_corners=None, **k) -> STensor:
    """F.interpolate is uninterpreted: the call is recorded and an opaque tensor of the requested size is returned."""
    if size is None:
        raise Unsupported("interpolate with scale_factor")
    if isinstance(size, STensor):
        size = size.tolist()
    size = [simplify(v.item() if isinstance(v, STensor) else v) for v in (size if isinstance(size, (tuple, list)) else [size] * (input.ndim - 2))]
    import hashlib
    n = hashlib.md5(repr((input.tolist(), list(size), mode, align_corners)).encode()).hexdigest()[:10]
    INTERPOLATE_CALLS.append({"input": input, "size": list(size), "mode": mode, "align_corners": align_corners})
    shape = list(input.shape[:2]) + list(size)
    if list(input.shape[2:]) == list(size):
        return input.clone() if input.dtype.is_floating_point else input.type(FLOAT)  # same size: identity for every mode/flag
    return STensor.from_flat([Rat.atom(f"ip{n}_{i}") for i in range(_numel(shape))], shape, FLOAT)


def _ntuple(x, D):
    if isinstance(x, STensor):
        x = x.tolist()
    if isinstance(x, (tuple, list)):
        v = [simplify(a.item() if isinstance(a, STensor) else a) for a in x]
        if len(v) == 1:
            v = v * D
    else:
        v = [simplify(x)] * D
    if len(v) != D or any(not isinstance(a, int) for a in v):
        raise Unsupported(f"conv parameter {x!r}")
    return v


def _conv_dtype(input: STensor, weight: STensor) -> DType:
    """torch's convolutions require input and weight of the same floating type; the result has that type."""
    if input.dtype.is_floating_point and weight.dtype.is_floating_point and input.dtype.name != weight.dtype.name:
        raise InterpError("RuntimeError", f"expected scalar type {input.dtype.name} but found {weight.dtype.name} (convolution input vs weight)")
    return input.dtype if input.dtype.is_floating_point else FLOAT


def convnd(input: STensor, weight: STensor, bias=None, stride=1, padding=0, dilation=1, groups=1) -> STensor:
    """Model of F.conv{1,2,3}d (cross-correlation, documented semantics)."""
    D = input.ndim - 2
    if weight.ndim != D + 2:
        raise InterpError("RuntimeError", f"conv: weight rank {weight.ndim} for input rank {input.ndim}")
    if isinstance(padding, str):
        raise Unsupported("conv padding mode string")
    st, pd, dl = _ntuple(stride, D), _ntuple(padding, D), _ntuple(dilation, D)
    N, Cin = input.shape[0], input.shape[1]
    Cout, Cg = weight.shape[0], weight.shape[1]
    k = list(weight.shape[2:])
    if Cin != Cg * groups or Cout % groups:
        raise InterpError("RuntimeError", f"conv: channels {Cin} vs weight {tuple(weight.shape)} groups {groups}")
    sp = list(input.shape[2:])
    out_sp = [(sp[d] + 2 * pd[d] - dl[d] * (k[d] - 1) - 1) // st[d] + 1 for d in range(D)]
    if any(o <= 0 for o in out_sp):
        raise InterpError("RuntimeError", "conv: output size is too small")
    inp = input.tolist()
    w = weight.tolist()
    cout_g = Cout // groups
    vals = []
    for n in range(N):
        for co in range(Cout):
            g = co // cout_g
            for o in itertools.product(*[range(x) for x in out_sp]):
                acc = Rat.of(0)
                for ci in range(Cg):
                    chan = inp[n][g * Cg + ci]
                    wk = w[co][ci]
                    for kk in itertools.product(*[range(x) for x in k]):
                        pos = [o[d] * st[d] + kk[d] * dl[d] - pd[d] for d in range(D)]
                        if any(not 0 <= pos[d] < sp[d] for d in range(D)):
                            continue
                        a, b = chan, wk
                        for d in range(D):
                            a = a[pos[d]]
                            b = b[kk[d]]
                        a, b = to_rat(a), to_rat(b)
                        if not (a.is_zero() or b.is_zero()):
                            acc = acc + a * b
                vals.append(acc)
    out = STensor.from_flat(vals, [N, Cout] + out_sp, _conv_dtype(input, weight))
    if bias is not None:
        out = out.add(bias.reshape([1, Cout] + [1] * D))
    return out


def conv_transpose_nd(input: STensor, weight: STensor, bias=None, stride=1, padding=0, output_padding=0, groups=1, dilation=1) -> STensor:
    """Model of F.conv_transpose{1,2,3}d (documented semantics)."""
    D = input.ndim - 2
    st, pd, dl, op = _ntuple(stride, D), _ntuple(padding, D), _ntuple(dilation, D), _ntuple(output_padding, D)
    N, Cin = input.shape[0], input.shape[1]
    if weight.shape[0] != Cin or Cin % groups:
        raise InterpError("RuntimeError", "conv_transpose: channel mismatch")
    cout_g = weight.shape[1]
    Cout = cout_g * groups
    cin_g = Cin // groups
    k = list(weight.shape[2:])
    sp = list(input.shape[2:])
    out_sp = [(sp[d] - 1) * st[d] - 2 * pd[d] + dl[d] * (k[d] - 1) + op[d] + 1 for d in range(D)]
    acc: Dict[Tuple[int, ...], Rat] = {}
    inp = input.tolist()
    w = weight.tolist()
    for n in range(N):
        for ci in range(Cin):
            g = ci // cin_g
            for i in itertools.product(*[range(x) for x in sp]):
                a = inp[n][ci]
                for d in range(D):
                    a = a[i[d]]
                a = to_rat(a)
                if a.is_zero():
                    continue
                for co in range(cout_g):
                    for kk in itertools.product(*[range(x) for x in k]):
                        pos = [i[d] * st[d] + kk[d] * dl[d] - pd[d] for d in range(D)]
                        if any(not 0 <= pos[d] < out_sp[d] for d in range(D)):
                            continue
                        b = w[ci][co]
                        for d in range(D):
                            b = b[kk[d]]
                        b = to_rat(b)
                        if b.is_zero():
                            continue
                        key = (n, g * cout_g + co) + tuple(pos)
                        acc[key] = acc.get(key, Rat.of(0)) + a * b
    vals = [acc.get(ix, Rat.of(0)) for ix in itertools.product(*[range(x) for x in [N, Cout] + out_sp])]
    out = STensor.from_flat(vals, [N, Cout] + out_sp, _conv_dtype(input, weight))
    if bias is not None:
        out = out.add(bias.reshape([1, Cout] + [1] * D))
    return out
