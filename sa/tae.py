"""E5: table-arm abstract evaluator — an abstract interpreter for the Python/torch subset the repo's closed-form
tables are written in, over the ring normal-form domain (sa/ring.py, sa/symt.py).

Control flow is concrete: every branch condition must evaluate to a definite truth value (literal selectors, concrete
shapes, or comparisons decidable from the adaptor's declared facts); otherwise ``Unsupported`` is raised and the
check fails closed (ANALYSIS-ERROR). No path conditions are collected and no solver is involved.
"""
from __future__ import annotations

import ast
import math
import operator
from fractions import Fraction
from typing import Any, Callable, Dict, List, Optional, Tuple

from . import symt
from .index import AnalysisError, ClassInfo, FunctionInfo, ModuleInfo, Program, dotted
from .ring import Poly, Rat, float_to_fraction
from .symt import (BOOL, CPU, DTYPES, FLOAT, INT, DType, Device, InterpError, STensor, Size, Unsupported, compare,
                   simplify, to_rat)


_GEN_CACHE: Dict[int, bool] = {}


class _Return(Exception):
    def __init__(self, value):
        self.value = value


class _Break(Exception):
    pass


class _Continue(Exception):
    pass


class Obj:
    """Instance of a repo class."""

    def __init__(self, cls: ClassInfo):
        self.cls = cls
        self.attrs: Dict[str, Any] = {}

    def __repr__(self):
        return f"<{self.cls.name} obj {sorted(self.attrs)}>"


from . import modmodel as MM


class ModObj(Obj):
    """Instance of a repo class deriving from torch.nn.Module (attribute routing per sa/modmodel.py)."""

    is_module = True


class STObj(STensor):
    """Instance of a repo class deriving from torch.Tensor (DataTensor family): a symbolic tensor plus attributes."""

    __slots__ = ("cls", "attrs")

    def __init__(self, cls: ClassInfo, base: STensor):
        STensor.__init__(self, base.store, list(base.idx), base.shape, base.dtype)
        self.requires_grad = base.requires_grad
        self.cls = cls
        self.attrs: Dict[str, Any] = {}

    def plain(self) -> STensor:
        return STensor(self.store, list(self.idx), self.shape, self.dtype)

    def __repr__(self):
        return f"<{self.cls.name} tensor {tuple(self.shape)} {sorted(self.attrs)}>"


class EnumVal:
    def __init__(self, cls: ClassInfo, name: str, value: Any):
        self.cls = cls
        self.name = name
        self.value = value

    def __repr__(self):
        return f"{self.cls.name}.{self.name}"

    def __hash__(self):
        return hash((self.cls.key, self.name))

    def __eq__(self, o):
        return isinstance(o, EnumVal) and o.cls == self.cls and o.name == self.name


class ClassVal:
    def __init__(self, cls: ClassInfo):
        self.cls = cls

    def __repr__(self):
        return f"<class {self.cls.name}>"

    def __hash__(self):
        return hash(self.cls.key)

    def __eq__(self, o):
        return isinstance(o, ClassVal) and o.cls == self.cls


class FuncVal:
    def __init__(self, fi: Optional[FunctionInfo], node, module: ModuleInfo, closure: Optional["Frame"] = None,
                 cls: Optional[ClassInfo] = None):
        self.fi = fi
        self.node = node
        self.module = module
        self.closure = closure
        self.cls = cls

    def __repr__(self):
        return f"<function {getattr(self.node, 'name', 'lambda')}>"


class BoundMethod:
    def __init__(self, receiver: Any, func: FuncVal):
        self.receiver = receiver
        self.func = func


class ModuleVal:
    def __init__(self, mi: ModuleInfo):
        self.mi = mi


class External:
    """Reference to something outside the repo (torch, math, numpy...) by dotted name."""

    def __init__(self, name: str):
        self.name = name

    def __repr__(self):
        return f"<external {self.name}>"

    def __hash__(self):
        return hash(self.name)

    def __eq__(self, o):
        return isinstance(o, External) and o.name == self.name


class HostObject:
    """Base class for host (analysis-side) stand-in objects handed to interpreted code; attributes via Python getattr."""


class SuperProxy:
    def __init__(self, obj, after: ClassInfo):
        self.obj = obj
        self.after = after


class Frame:
    def __init__(self, module: ModuleInfo, cls: Optional[ClassInfo] = None, parent: Optional["Frame"] = None,
                 func_name: str = ""):
        self.vars: Dict[str, Any] = {}
        self.module = module
        self.cls = cls
        self.parent = parent
        self.func_name = func_name
        self.self_obj = None

    def lookup(self, name: str):
        f = self
        while f is not None:
            if name in f.vars:
                return True, f.vars[name]
            f = f.parent
        return False, None


_PY_EXC = {"ValueError", "TypeError", "RuntimeError", "NotImplementedError", "AssertionError", "IndexError", "KeyError",
           "AttributeError", "Exception", "ZeroDivisionError", "StopIteration", "OverflowError", "ArithmeticError"}


class ExcVal:
    def __init__(self, name: str, args: tuple = ()):
        self.name = name
        self.args = args


EXECUTED: Optional[set] = set() if __import__("os").environ.get("VERIF_COVERAGE") else None  # development audit: repo functions interpreted


class Interp:
    def __init__(self, prog: Program, max_steps: int = 400000):
        self.prog = prog
        self.steps = 0
        self.max_steps = max_steps
        self._enum_cache: Dict[Tuple[str, str], EnumVal] = {}
        self._const_cache: Dict[Tuple[str, str], Any] = {}
        self.overrides: Dict[str, Callable] = {}  # function key -> python callable(interp, args, kwargs)
        self.trace_calls: List[str] = []
        self.call_depth = 0

    # ------------------------------------------------------------------ public API
    def call(self, fi: FunctionInfo, *args, **kwargs):
        fv = FuncVal(fi, fi.node, fi.module, None, fi.cls)
        return self.call_value(fv, list(args), dict(kwargs))

    def new(self, ci: ClassInfo, *args, **kwargs):
        return self.call_value(ClassVal(ci), list(args), dict(kwargs))

    def method(self, obj: Obj, name: str, *args, **kwargs):
        m = self.getattr(obj, name)
        return self.call_value(m, list(args), dict(kwargs))

    def enum(self, ci: ClassInfo, name: str) -> EnumVal:
        return self._enum_member(ci, name)

    # ------------------------------------------------------------------ errors
    def unsupported(self, node, why: str):
        loc = f"line {getattr(node, 'lineno', '?')}"
        src = ""
        try:
            src = ast.unparse(node)[:80]
        except Exception:
            pass
        raise Unsupported(f"{why} at {loc}: {src}")

    # ------------------------------------------------------------------ functions
    def call_value(self, f, args: List[Any], kwargs: Dict[str, Any], node=None):
        self.steps += 1
        if self.steps > self.max_steps:
            raise Unsupported("evaluation step budget exceeded")
        if isinstance(f, BoundMethod):
            return self.call_value(f.func, [f.receiver] + args, kwargs, node)
        if isinstance(f, FuncVal):
            return self._call_func(f, args, kwargs)
        if isinstance(f, ClassVal):
            return self._instantiate(f.cls, args, kwargs)
        if isinstance(f, ModObj):
            return self.call_module(f, args, kwargs)
        if isinstance(f, External):
            return self._call_external(f.name, args, kwargs, node)
        if isinstance(f, type) or callable(f):
            if isinstance(getattr(f, "__self__", None), STensor):
                # members of an IntEnum are ints to tensor methods (narrow, select, ...)
                args = [a.value if isinstance(a, EnumVal) and isinstance(a.value, int) and self._is_int_enum(a.cls) else a for a in args]
            try:
                return f(*args, **kwargs)
            except (Unsupported, InterpError):
                raise
            except ZeroDivisionError as e:
                raise InterpError("ZeroDivisionError", str(e))
            except (TypeError, ValueError, IndexError, KeyError, AttributeError) as e:
                mod = getattr(f, "__module__", "") or ""
                if isinstance(getattr(f, "__self__", None), STensor) or mod.startswith("sa."):
                    raise Unsupported(f"model of {getattr(f, '__name__', f)}: {type(e).__name__}: {e}")
                raise InterpError(type(e).__name__, f"{getattr(f, '__name__', f)}: {e}")
        raise Unsupported(f"call of {f!r}")

    def _call_func(self, f: FuncVal, args: List[Any], kwargs: Dict[str, Any]):
        if f.fi is not None and f.fi.key in self.overrides:
            return self.overrides[f.fi.key](self, args, kwargs)
        node = f.node
        if EXECUTED is not None and f.fi is not None:
            EXECUTED.add(f.fi.key)
        self.call_depth += 1
        if self.call_depth > 60:
            raise Unsupported("call depth exceeded (recursion?)")
        try:
            frame = Frame(f.module, f.cls, f.closure, getattr(node, "name", "<lambda>"))
            self._bind_params(frame, node.args, args, kwargs, getattr(node, "name", "lambda"))
            if f.cls is not None and args:
                frame.self_obj = args[0]
            if isinstance(node, ast.Lambda):
                return self.eval(node.body, frame)
            is_gen = _GEN_CACHE.get(id(node))
            if is_gen is None:
                is_gen = _GEN_CACHE[id(node)] = any(isinstance(n, (ast.Yield, ast.YieldFrom)) for n in ast.walk(node))
            if is_gen:
                frame.vars["__yields__"] = []
            try:
                self.exec_block(node.body, frame)
            except _Return as r:
                if is_gen:
                    return iter(frame.vars["__yields__"])
                return r.value
            if is_gen:
                return iter(frame.vars["__yields__"])
            return None
        finally:
            self.call_depth -= 1

    def _bind_params(self, frame: Frame, a: ast.arguments, args: List[Any], kwargs: Dict[str, Any], fname: str):
        pos = a.posonlyargs + a.args
        kwargs = dict(kwargs)
        ndef = len(a.defaults)
        for i, p in enumerate(pos):
            if i < len(args):
                if p.arg in kwargs:
                    raise InterpError("TypeError", f"{fname}() got multiple values for argument '{p.arg}'")
                frame.vars[p.arg] = args[i]
            elif p.arg in kwargs:
                frame.vars[p.arg] = kwargs.pop(p.arg)
            else:
                di = i - (len(pos) - ndef)
                if di < 0:
                    raise InterpError("TypeError", f"{fname}() missing required argument '{p.arg}'")
                frame.vars[p.arg] = self.eval(a.defaults[di], Frame(frame.module, frame.cls, frame.parent))
        extra = args[len(pos):]
        if a.vararg is not None:
            frame.vars[a.vararg.arg] = tuple(extra)
        elif extra:
            raise InterpError("TypeError", f"{fname}() takes {len(pos)} positional arguments but {len(args)} were given")
        for p, d in zip(a.kwonlyargs, a.kw_defaults):
            if p.arg in kwargs:
                frame.vars[p.arg] = kwargs.pop(p.arg)
            elif d is not None:
                frame.vars[p.arg] = self.eval(d, Frame(frame.module, frame.cls, frame.parent))
            else:
                raise InterpError("TypeError", f"{fname}() missing required keyword-only argument '{p.arg}'")
        if a.kwarg is not None:
            frame.vars[a.kwarg.arg] = kwargs
        elif kwargs:
            raise InterpError("TypeError", f"{fname}() got an unexpected keyword argument '{next(iter(kwargs))}'")

    def _instantiate(self, ci: ClassInfo, args, kwargs):
        prog = self.prog
        if self._is_enum(ci):
            if len(args) != 1:
                raise InterpError("TypeError", "Enum() takes one argument")
            v = args[0]
            if isinstance(v, EnumVal) and v.cls == ci:
                return v
            for name in self._enum_names(ci):
                m = self._enum_member(ci, name)
                if m.value == v:
                    return m
            raise InterpError("ValueError", f"{v!r} is not a valid {ci.name}")
        if self._is_tensor_class(ci):
            new = prog.find_method(ci, "__new__")
            if new is None:
                raise Unsupported(f"tensor subclass {ci.name} without repo-defined __new__")
            obj = self._call_func(FuncVal(new, new.node, new.module, None, new.cls), [ClassVal(ci)] + list(args), dict(kwargs))
            if not isinstance(obj, STObj):
                raise Unsupported(f"{ci.name}.__new__ did not produce a tensor subclass instance")
            init = prog.find_method(ci, "__init__")
            if init is not None:
                self._call_func(FuncVal(init, init.node, init.module, None, init.cls), [obj] + list(args), kwargs)
            return obj
        obj = ModObj(ci) if prog.is_module_class(ci) else Obj(ci)
        init = prog.find_method(ci, "__init__")
        if init is None and isinstance(obj, ModObj):
            MM.module_init(obj)
        if init is not None:
            self._call_func(FuncVal(init, init.node, init.module, None, init.cls), [obj] + list(args), kwargs)
        elif args or kwargs:
            ext = prog.all_external_bases(ci)
            if any(x.split(".")[-1].endswith(("Error", "Exception", "Warning")) for x in ext):
                obj.attrs["args"] = tuple(args)  # exception classes derived from a built-in exception: BaseException.__init__(*args)
                return obj
            raise Unsupported(f"constructor of {ci.name} with external base {ext}")
        return obj

    # ------------------------------------------------------------------ enums / module constants
    def _is_enum(self, ci: ClassInfo) -> bool:
        return any(x.split(".")[-1] in ("Enum", "IntEnum", "Flag") for x in self.prog.all_external_bases(ci))

    def _is_tensor_class(self, ci: ClassInfo) -> bool:
        return any(x in ("Tensor", "torch.Tensor") for x in self.prog.all_external_bases(ci))

    def _is_int_enum(self, ci: ClassInfo) -> bool:
        return any(x.split(".")[-1] == "IntEnum" for x in self.prog.all_external_bases(ci))

    def _enum_names(self, ci: ClassInfo) -> List[str]:
        out = []
        for c in reversed(self.prog.mro(ci)):
            for st in c.node.body:
                if isinstance(st, ast.Assign) and len(st.targets) == 1 and isinstance(st.targets[0], ast.Name):
                    n = st.targets[0].id
                    if not n.startswith("_"):
                        out.append(n)
        return out

    def _enum_member(self, ci: ClassInfo, name: str) -> EnumVal:
        k = (ci.key, name)
        if k not in self._enum_cache:
            expr = None
            for c in self.prog.mro(ci):
                if name in c.class_attrs:
                    expr = c.class_attrs[name]
                    owner = c
                    break
            if expr is None:
                raise InterpError("AttributeError", f"{ci.name}.{name}")
            val = self.eval(expr, Frame(owner.module, owner))
            # aliases: same value -> same member
            for (ck, n2), m in self._enum_cache.items():
                if ck == ci.key and m.value == val:
                    self._enum_cache[k] = m
                    return m
            self._enum_cache[k] = EnumVal(ci, name, val)
        return self._enum_cache[k]

    def module_global(self, mi: ModuleInfo, name: str):
        r = self.prog.resolve_global(mi, name)
        if r is None:
            return False, None
        return True, self._wrap_resolved(r, name)

    def _wrap_resolved(self, r, name=""):
        if isinstance(r, FunctionInfo):
            return FuncVal(r, r.node, r.module, None, r.cls)
        if isinstance(r, ClassInfo):
            return ClassVal(r)
        if isinstance(r, ModuleInfo):
            return ModuleVal(r)
        if isinstance(r, tuple):
            if r[0] == "external":
                return self._external(r[1])
            if r[0] == "const":
                _, cmi, expr = r
                k = (cmi.name, name or ast.unparse(expr))
                if k not in self._const_cache:
                    self._const_cache[k] = self.eval(expr, Frame(cmi))
                return self._const_cache[k]
            if r[0] == "classattr":
                return self.getattr(ClassVal(r[1]), r[2])
        raise Unsupported(f"cannot wrap {r!r}")

    def _external(self, name: str):
        if name in _EXTERNAL_VALUES:
            return _EXTERNAL_VALUES[name]
        return External(name)

    # ------------------------------------------------------------------ attribute access
    def getattr(self, v, attr: str, node=None):
        prog = self.prog
        if isinstance(v, ModObj):
            return self._module_getattr(v, attr)
        if isinstance(v, Obj):
            if attr == "__dict__":
                return v.attrs
            if attr in v.attrs:
                return v.attrs[attr]
            m = prog.find_method(v.cls, attr)
            if m is not None:
                fv = FuncVal(m, m.node, m.module, None, m.cls)
                if m.is_property:
                    return self._call_func(fv, [v], {})
                if m.is_static:
                    return fv
                if m.is_classmethod:
                    return BoundMethod(ClassVal(v.cls), fv)
                return BoundMethod(v, fv)
            for c in prog.mro(v.cls):
                if attr in c.class_attrs:
                    return self.eval(c.class_attrs[attr], Frame(c.module, c))
            if attr == "__class__":
                return ClassVal(v.cls)
            raise InterpError("AttributeError", f"'{v.cls.name}' object has no attribute '{attr}'")
        if isinstance(v, SuperProxy):
            m = prog.find_method(v.obj.cls if isinstance(v.obj, Obj) else v.obj.cls, attr, after=v.after)
            if m is None:
                if attr == "__init__":
                    if isinstance(v.obj, ModObj) and "_parameters" not in v.obj.attrs:
                        return lambda *a, **k: MM.module_init(v.obj)
                    return lambda *a, **k: None
                if isinstance(v.obj, ModObj) and attr in _MODULE_METHODS:
                    return _MODULE_METHODS[attr](self, v.obj)
                if isinstance(v.obj, STObj) and hasattr(STensor, attr):
                    return getattr(v.obj.plain(), attr)
                raise Unsupported(f"super().{attr} resolves outside the repo")
            fv = FuncVal(m, m.node, m.module, None, m.cls)
            if m.is_property:
                return self._call_func(fv, [v.obj], {})
            return BoundMethod(v.obj, fv)
        if isinstance(v, ClassVal):
            ci = v.cls
            if self._is_enum(ci) and attr in self._enum_names(ci):
                return self._enum_member(ci, attr)
            m = prog.find_method(ci, attr)
            if m is not None:
                fv = FuncVal(m, m.node, m.module, None, m.cls)
                if m.is_classmethod:
                    return BoundMethod(v, fv)
                return fv
            for c in prog.mro(ci):
                if attr in c.class_attrs:
                    return self.eval(c.class_attrs[attr], Frame(c.module, c))
            if attr == "__name__":
                return ci.name
            raise InterpError("AttributeError", f"type object '{ci.name}' has no attribute '{attr}'")
        if isinstance(v, EnumVal):
            if attr == "value":
                return v.value
            if attr == "name":
                return v.name
            m = prog.find_method(v.cls, attr)
            if m is not None:
                fv = FuncVal(m, m.node, m.module, None, m.cls)
                if m.is_property:
                    return self._call_func(fv, [v], {})
                if m.is_classmethod:
                    return BoundMethod(ClassVal(v.cls), fv)
                return BoundMethod(v, fv)
            if attr in self._enum_names(v.cls):
                return self._enum_member(v.cls, attr)
            raise InterpError("AttributeError", f"{v!r}.{attr}")
        if isinstance(v, ModuleVal):
            ok, val = self.module_global(v.mi, attr)
            if ok:
                return val
            sub = f"{v.mi.name}.{attr}"
            if sub in prog.modules:
                return ModuleVal(prog.modules[sub])
            raise InterpError("AttributeError", f"module {v.mi.name} has no attribute {attr}")
        if isinstance(v, External):
            return self._external(v.name + "." + attr)
        if isinstance(v, STObj):
            if attr in v.attrs:
                return v.attrs[attr]
            m = prog.find_method(v.cls, attr)
            if m is not None:
                fv = FuncVal(m, m.node, m.module, None, m.cls)
                if m.is_property:
                    return self._call_func(fv, [v], {})
                if m.is_static:
                    return fv
                if m.is_classmethod:
                    return BoundMethod(ClassVal(v.cls), fv)
                return BoundMethod(v, fv)
            for c in prog.mro(v.cls):
                if attr in c.class_attrs:
                    return self.eval(c.class_attrs[attr], Frame(c.module, c))
            if attr == "as_subclass":
                return lambda t: self._as_subclass(v, t)
            if attr == "__dict__":
                return v.attrs
            if attr == "is_pinned":
                return lambda: False
            if attr == "is_quantized":
                return False
            if getattr(self, "dispatch_methods", False) and hasattr(STensor, attr) and callable(getattr(STensor, attr)) \
                    and attr in _DISPATCHED_METHODS and prog.find_method(v.cls, "__torch_function__") is not None:
                # torch semantics: a tensor method of a subclass instance goes through the class's __torch_function__
                def dispatched(*a, _v=v, _attr=attr, **k):
                    if "torch.Tensor.__torch_function__" not in _EXTERNAL_FUNCS:
                        _EXTERNAL_FUNCS["torch.Tensor.__torch_function__"] = \
                            lambda func, types, args=(), kwargs=None: apply_torch_function(func, args, kwargs)
                    tf = self.getattr(ClassVal(_v.cls), "__torch_function__")
                    return self.call_value(tf, [External(f"torch.Tensor.{_attr}"), (), (_v,) + tuple(a), dict(k)], {})
                return dispatched
        if isinstance(v, STensor):
            if attr == "as_subclass":
                return lambda t: self._as_subclass(v, t)
            if attr in ("shape", "ndim", "dtype", "device", "T", "mT", "requires_grad"):
                return getattr(v, attr)
            if attr == "data":
                symt.GRAPH_EVENTS.append((".data", id(v.store)))
                return v
            if attr == "is_cuda":
                return False
            if attr == "size" and NUMPY_SIZE_ATTR:
                return _NumelOrSize(v)
            if hasattr(STensor, attr):
                return getattr(v, attr)
            if attr.startswith("_"):
                raise InterpError("AttributeError", f"'Tensor' object has no attribute '{attr}'")
            raise Unsupported(f"tensor attribute/method '{attr}'")
        if isinstance(v, Rat):
            if attr == "item":
                return lambda: v
            raise Unsupported(f"scalar attribute '{attr}'")
        if isinstance(v, (DType, Device, Size, str, tuple, list, dict, set, int, Fraction, range, slice, frozenset, ExcVal)):
            if isinstance(v, Fraction) and attr == "is_integer":
                return lambda: v.denominator == 1
            try:
                return getattr(v, attr)
            except AttributeError:
                raise InterpError("AttributeError", f"'{type(v).__name__}' object has no attribute '{attr}'")
        if v is None:
            raise InterpError("AttributeError", f"'NoneType' object has no attribute '{attr}'")
        import re as _re
        if isinstance(v, (HostObject, MM.HModuleDict, MM.HModuleList, MM.HookHandle, _re.Pattern, _re.Match)):
            try:
                return getattr(v, attr)
            except AttributeError:
                raise InterpError("AttributeError", f"host object has no attribute '{attr}'")
        if isinstance(v, (FuncVal, BoundMethod)):
            if attr == "__name__":
                return getattr((v.func if isinstance(v, BoundMethod) else v).node, "name", "lambda")
        if v is _dict and attr == "fromkeys":
            return lambda keys, value=None: dict.fromkeys(list(keys), value)
        if isinstance(v, bytes):
            return getattr(v, attr)
        raise Unsupported(f"attribute '{attr}' of {type(v).__name__}")

    def _module_getattr(self, v: "ModObj", attr: str):
        prog = self.prog
        if attr == "__dict__":
            return v.attrs
        if attr == "__class__":
            return ClassVal(v.cls)
        m = prog.find_method(v.cls, attr)
        if m is not None and m.is_property:
            return self._call_func(FuncVal(m, m.node, m.module, None, m.cls), [v], {})
        if attr in v.attrs:
            return v.attrs[attr]
        if m is not None:
            fv = FuncVal(m, m.node, m.module, None, m.cls)
            if m.is_static:
                return fv
            if m.is_classmethod:
                return BoundMethod(ClassVal(v.cls), fv)
            return BoundMethod(v, fv)
        for c in prog.mro(v.cls):
            if attr in c.class_attrs:
                return self.eval(c.class_attrs[attr], Frame(c.module, c))
        r = MM.module_getattr_fallback(v, attr)
        if r is not MM._MISSING:
            return r
        if attr in _MODULE_METHODS:
            return _MODULE_METHODS[attr](self, v)
        if attr == "__new__":
            return lambda cls_: ModObj(cls_.cls)
        raise InterpError("AttributeError", f"'{v.cls.name}' object has no attribute '{attr}'")

    def delattr(self, v, attr: str):
        if isinstance(v, ModObj):
            MM.module_delattr(v, attr)
        elif isinstance(v, (Obj, STObj)):
            if attr not in v.attrs:
                raise InterpError("AttributeError", attr)
            del v.attrs[attr]
        else:
            raise Unsupported(f"delattr on {type(v).__name__}")

    def call_module(self, m: "ModObj", args, kwargs):
        """torch.nn.Module.__call__: forward pre-hooks, then forward()."""
        for hook in list((m.attrs.get("_forward_pre_hooks") or {}).values()):
            r = self.call_value(hook, [m, tuple(args)], {})
            if r is not None:
                args = list(r) if isinstance(r, tuple) else [r]
        out = self.call_value(self.getattr(m, "forward"), list(args), dict(kwargs))
        for hook in list((m.attrs.get("_forward_hooks") or {}).values()):
            r = self.call_value(hook, [m, tuple(args), out], {})
            if r is not None:
                out = r
        return out

    def _as_subclass(self, v: STensor, t):
        if isinstance(t, ClassVal):
            return STObj(t.cls, v)
        if isinstance(t, External) and t.name.split(".")[-1] == "Tensor":
            return v.plain() if isinstance(v, STObj) else v
        raise Unsupported(f"as_subclass({t!r})")

    def setattr(self, v, attr: str, value):
        if isinstance(v, ModObj):
            if attr == "__dict__":
                v.attrs = value
                return
            MM.module_setattr(v, attr, value)
            return
        if isinstance(v, Obj) and attr == "__dict__":
            v.attrs = value
            return
        if isinstance(v, STObj):
            if attr == "__dict__":
                v.attrs = value
                return
            v.attrs[attr] = value
            return
        if isinstance(v, Obj):
            v.attrs[attr] = value
            return
        if isinstance(v, STensor) and attr in ("requires_grad",):
            return
        raise Unsupported(f"attribute store on {type(v).__name__}")

    # ------------------------------------------------------------------ statements
    def exec_block(self, body: List[ast.stmt], frame: Frame):
        for st in body:
            self.exec(st, frame)

    def exec(self, st: ast.stmt, frame: Frame):
        self.steps += 1
        if self.steps > self.max_steps:
            raise Unsupported("evaluation step budget exceeded")
        if isinstance(st, ast.Expr):
            self.eval(st.value, frame)
        elif isinstance(st, ast.Assign):
            v = self.eval(st.value, frame)
            for t in st.targets:
                self.assign(t, v, frame)
        elif isinstance(st, ast.AnnAssign):
            if st.value is not None:
                self.assign(st.target, self.eval(st.value, frame), frame)
        elif isinstance(st, ast.AugAssign):
            self._augassign(st, frame)
        elif isinstance(st, ast.Return):
            raise _Return(self.eval(st.value, frame) if st.value is not None else None)
        elif isinstance(st, ast.If):
            if self.truth(self.eval(st.test, frame), st.test):
                self.exec_block(st.body, frame)
            else:
                self.exec_block(st.orelse, frame)
        elif isinstance(st, ast.For):
            it = self.iterate(self.eval(st.iter, frame), st.iter)
            broke = False
            for x in it:
                self.assign(st.target, x, frame)
                try:
                    self.exec_block(st.body, frame)
                except _Break:
                    broke = True
                    break
                except _Continue:
                    continue
            if not broke:
                self.exec_block(st.orelse, frame)
        elif isinstance(st, ast.While):
            n = 0
            while self.truth(self.eval(st.test, frame), st.test):
                n += 1
                if n > 10000:
                    raise Unsupported("while loop bound exceeded")
                try:
                    self.exec_block(st.body, frame)
                except _Break:
                    break
                except _Continue:
                    continue
        elif isinstance(st, ast.Raise):
            if st.exc is None:
                raise InterpError("Exception", "re-raise")
            e = self.eval(st.exc, frame)
            if isinstance(e, ExcVal):
                raise InterpError(e.name, " ".join(str(a) for a in e.args))
            if isinstance(e, Obj):
                raise InterpError(e.cls.name, "")
            if isinstance(e, ClassVal):
                raise InterpError(e.cls.name, "")
            raise InterpError("Exception", str(e))
        elif isinstance(st, ast.Assert):
            if not self.truth(self.eval(st.test, frame), st.test):
                raise InterpError("AssertionError", ast.unparse(st.test))
        elif isinstance(st, ast.Pass):
            pass
        elif isinstance(st, ast.Break):
            raise _Break()
        elif isinstance(st, ast.Continue):
            raise _Continue()
        elif isinstance(st, ast.With):
            for item in st.items:
                v = self.eval(item.context_expr, frame)
                if item.optional_vars is not None:
                    self.assign(item.optional_vars, v, frame)
            self.exec_block(st.body, frame)
        elif isinstance(st, ast.Try):
            try:
                self.exec_block(st.body, frame)
            except InterpError as e:
                for h in st.handlers:
                    names = []
                    if h.type is None:
                        names = ["*"]
                    elif isinstance(h.type, ast.Tuple):
                        names = [dotted(x) or "" for x in h.type.elts]
                    else:
                        names = [dotted(h.type) or ""]
                    if "*" in names or e.exc_type in names or "Exception" in names or "BaseException" in names:
                        if h.name:
                            frame.vars[h.name] = ExcVal(e.exc_type, (e.msg,))
                        self.exec_block(h.body, frame)
                        break
                else:
                    raise
            else:
                self.exec_block(st.orelse, frame)
            finally:
                self.exec_block(st.finalbody, frame)
        elif isinstance(st, (ast.FunctionDef,)):
            frame.vars[st.name] = FuncVal(None, st, frame.module, frame, None)
        elif isinstance(st, ast.Delete):
            for t in st.targets:
                if isinstance(t, ast.Name):
                    frame.vars.pop(t.id, None)
                elif isinstance(t, ast.Subscript):
                    c = self.eval(t.value, frame)
                    k = self.eval(t.slice, frame)
                    del c[k]
                elif isinstance(t, ast.Attribute):
                    self.delattr(self.eval(t.value, frame), t.attr)
                else:
                    self.unsupported(st, "del target")
        elif isinstance(st, ast.Import):
            for al in st.names:
                nm = al.asname or al.name.split(".")[0]
                target = al.name if al.asname else al.name.split(".")[0]
                frame.vars[nm] = ModuleVal(self.prog.modules[target]) if target in self.prog.modules else self._external(target)
        elif isinstance(st, ast.ImportFrom):
            base = self.prog._resolve_relative(frame.module, st.module, st.level)
            for al in st.names:
                nm = al.asname or al.name
                if base in self.prog.modules:
                    ok, v = self.module_global(self.prog.modules[base], al.name)
                    if ok:
                        frame.vars[nm] = v
                        continue
                    sub = f"{base}.{al.name}"
                    if sub in self.prog.modules:
                        frame.vars[nm] = ModuleVal(self.prog.modules[sub])
                        continue
                frame.vars[nm] = self._external(f"{base}.{al.name}")
        elif isinstance(st, (ast.Global, ast.Nonlocal)):
            pass
        else:
            self.unsupported(st, f"statement {type(st).__name__}")

    def _augassign(self, st: ast.AugAssign, frame: Frame):
        rhs = self.eval(st.value, frame)
        t = st.target
        if isinstance(t, ast.Name):
            cur = self.eval(ast.Name(id=t.id, ctx=ast.Load()), frame)
            new = self._inplace_binop(st.op, cur, rhs, st)
            self.assign(t, new, frame)
        elif isinstance(t, ast.Subscript):
            c = self.eval(t.value, frame)
            k = self.eval(t.slice, frame)
            cur = self._getitem(c, k, t)
            new = self._inplace_binop(st.op, cur, rhs, st)
            self._setitem(c, k, new, t)
        elif isinstance(t, ast.Attribute):
            o = self.eval(t.value, frame)
            cur = self.getattr(o, t.attr)
            new = self._inplace_binop(st.op, cur, rhs, st)
            self.setattr(o, t.attr, new)
        else:
            self.unsupported(st, "augmented assignment target")

    def _inplace_binop(self, op, cur, rhs, node):
        if isinstance(cur, STensor):
            name = {ast.Add: "add_", ast.Sub: "sub_", ast.Mult: "mul_", ast.Div: "div_"}.get(type(op))
            if name is None:
                self.unsupported(node, "in-place tensor operator")
            if not cur.dtype.is_floating_point and isinstance(op, ast.Div):
                raise InterpError("RuntimeError", "result type Float can't be cast to the desired output type Long")
            return getattr(cur, name)(rhs)
        if isinstance(cur, list) and isinstance(op, ast.Add):
            cur.extend(rhs)
            return cur
        return self.binop(op, cur, rhs, node)

    def assign(self, t, v, frame: Frame):
        if isinstance(t, ast.Name):
            frame.vars[t.id] = v
        elif isinstance(t, (ast.Tuple, ast.List)):
            vals = list(self.iterate(v, t))
            star = [i for i, e in enumerate(t.elts) if isinstance(e, ast.Starred)]
            if star:
                i = star[0]
                n_after = len(t.elts) - i - 1
                for e, x in zip(t.elts[:i], vals[:i]):
                    self.assign(e, x, frame)
                self.assign(t.elts[i].value, list(vals[i:len(vals) - n_after]), frame)
                for e, x in zip(t.elts[i + 1:], vals[len(vals) - n_after:]):
                    self.assign(e, x, frame)
                return
            if len(vals) != len(t.elts):
                raise InterpError("ValueError", f"cannot unpack {len(vals)} values into {len(t.elts)} targets")
            for e, x in zip(t.elts, vals):
                self.assign(e, x, frame)
        elif isinstance(t, ast.Attribute):
            self.setattr(self.eval(t.value, frame), t.attr, v)
        elif isinstance(t, ast.Subscript):
            c = self.eval(t.value, frame)
            k = self.eval(t.slice, frame)
            self._setitem(c, k, v, t)
        else:
            self.unsupported(t, "assignment target")

    def _setitem(self, c, k, v, node):
        if isinstance(c, STensor):
            c[k] = v
        elif isinstance(c, MM.HModuleDict):
            c[k] = v
        elif isinstance(c, (list, dict)):
            try:
                if isinstance(c, list):
                    k = self._index_value(k)
                c[simplify(k) if not isinstance(k, (str, tuple, EnumVal, slice)) else k] = v
            except (IndexError, KeyError, TypeError) as e:
                raise InterpError(type(e).__name__, str(e))
        else:
            self.unsupported(node, f"item assignment on {type(c).__name__}")

    # ------------------------------------------------------------------ helpers
    def truth(self, v, node=None) -> bool:
        if isinstance(v, bool):
            return v
        if v is None:
            return False
        if isinstance(v, STensor):
            return bool(v)
        if isinstance(v, Rat):
            return symt._truth(v)
        if isinstance(v, (int, Fraction, str, tuple, list, dict, set, range, frozenset)):
            return bool(v)
        if isinstance(v, (MM.HModuleDict, MM.HModuleList)):
            return len(v) > 0
        if isinstance(v, (Obj, EnumVal, ClassVal, FuncVal, BoundMethod, ModuleVal, External, DType, Device)):
            if isinstance(v, Obj):
                ln = self.prog.find_method(v.cls, "__len__")
                if ln is not None:
                    return self.truth(self.method(v, "__len__"))
            return True
        import re as _re
        if isinstance(v, _re.Match):
            return True
        self.unsupported(node, f"truth value of {type(v).__name__}")

    def iterate(self, v, node=None):
        if isinstance(v, (list, tuple, range, dict, set, str, frozenset)) or hasattr(v, "__next__"):
            return v
        if isinstance(v, STensor) and not isinstance(v, STObj):
            return list(v)
        if isinstance(v, type({}.items())) or isinstance(v, (type({}.keys()), type({}.values()), zip, enumerate, map, reversed)):
            return v
        if isinstance(v, (Obj, STObj)):
            it = self.prog.find_method(v.cls, "__iter__")
            if it is not None:
                return list(self.method(v, "__iter__"))
        if isinstance(v, ClassVal) and self._is_enum(v.cls):
            seen = []
            for n in self._enum_names(v.cls):
                m = self._enum_member(v.cls, n)
                if m not in seen:
                    seen.append(m)
            return seen
        try:
            return iter(v)
        except TypeError:
            self.unsupported(node, f"iteration over {type(v).__name__}")

    # ------------------------------------------------------------------ expressions
    def eval(self, e: ast.expr, frame: Frame):
        m = getattr(self, "_e_" + type(e).__name__, None)
        if m is None:
            self.unsupported(e, f"expression {type(e).__name__}")
        return m(e, frame)

    def _e_Constant(self, e, frame):
        v = e.value
        if isinstance(v, float):
            return float_to_fraction(v)
        return v

    def _e_Name(self, e, frame):
        ok, v = frame.lookup(e.id)
        if ok:
            return v
        ok, v = self.module_global(frame.module, e.id)
        if ok:
            return v
        if e.id in _BUILTINS:
            return _BUILTINS[e.id]
        if e.id in _PY_EXC or e.id.endswith("Error") or e.id.endswith("Warning"):
            name = e.id
            return lambda *a, **k: ExcVal(name, a)
        if e.id == "super":
            return External("super")
        if e.id == "__name__":
            return frame.module.name
        raise Unsupported(f"unknown name '{e.id}' in {frame.module.name}")

    def _e_Attribute(self, e, frame):
        v = self.eval(e.value, frame)
        return self.getattr(v, e.attr, e)

    def _e_Tuple(self, e, frame):
        return tuple(self._elts(e.elts, frame))

    def _e_List(self, e, frame):
        return list(self._elts(e.elts, frame))

    def _e_Set(self, e, frame):
        return set(self._elts(e.elts, frame))

    def _elts(self, elts, frame):
        out = []
        for x in elts:
            if isinstance(x, ast.Starred):
                out.extend(self.iterate(self.eval(x.value, frame), x))
            else:
                out.append(self.eval(x, frame))
        return out

    def _e_Dict(self, e, frame):
        d = {}
        for k, v in zip(e.keys, e.values):
            if k is None:
                d.update(self.eval(v, frame))
            else:
                d[self.eval(k, frame)] = self.eval(v, frame)
        return d

    def to_str(self, v) -> str:
        if isinstance(v, (Obj, EnumVal, STObj)):
            m = self.prog.find_method(v.cls, "__str__")
            if m is not None:
                return self.method(v, "__str__")
        return _str(v)

    def _e_JoinedStr(self, e, frame):
        parts = []
        for v in e.values:
            if isinstance(v, ast.Constant):
                parts.append(str(v.value))
            else:
                try:
                    val = self.eval(v.value, frame)
                    spec = None
                    if isinstance(v, ast.FormattedValue) and v.format_spec is not None:
                        spec = self._e_JoinedStr(v.format_spec, frame) if isinstance(v.format_spec, ast.JoinedStr) else str(v.format_spec)
                    if spec and FORMAT_HOOK is not None and isinstance(val, (STensor, Rat, Fraction, int)) and not isinstance(val, bool) \
                            and not (isinstance(val, STensor) and val.ndim > 0):
                        parts.append(FORMAT_HOOK(val, spec))
                    elif spec and isinstance(val, (int, Fraction)) and not isinstance(val, bool):
                        try:
                            parts.append(format(val if isinstance(val, int) else float(val), spec))
                        except (ValueError, TypeError):
                            parts.append(self.to_str(val))
                    else:
                        parts.append(self.to_str(val))
                except (Unsupported, InterpError):
                    parts.append("?")
        return "".join(parts)

    def _e_FormattedValue(self, e, frame):
        return str(self.eval(e.value, frame))

    def _e_IfExp(self, e, frame):
        return self.eval(e.body, frame) if self.truth(self.eval(e.test, frame), e.test) else self.eval(e.orelse, frame)

    def _e_BoolOp(self, e, frame):
        if isinstance(e.op, ast.And):
            v = True
            for x in e.values:
                v = self.eval(x, frame)
                if not self.truth(v, x):
                    return v
            return v
        v = False
        for x in e.values:
            v = self.eval(x, frame)
            if self.truth(v, x):
                return v
        return v

    def _e_UnaryOp(self, e, frame):
        v = self.eval(e.operand, frame)
        if isinstance(e.op, ast.Not):
            return not self.truth(v, e.operand)
        if isinstance(e.op, ast.USub):
            if isinstance(v, (STensor, Rat, int, Fraction)):
                return simplify(-v) if not isinstance(v, STensor) else v.neg()
        if isinstance(e.op, ast.UAdd):
            return v
        if isinstance(e.op, ast.Invert) and isinstance(v, STensor):
            return v.logical_not()
        self.unsupported(e, "unary operator")

    def _e_BinOp(self, e, frame):
        return self.binop(e.op, self.eval(e.left, frame), self.eval(e.right, frame), e)

    def binop(self, op, a, b, node=None):
        t = type(op)
        if isinstance(a, EnumVal) and isinstance(a.value, int):
            a = a.value
        if isinstance(b, EnumVal) and isinstance(b.value, int):
            b = b.value
        if isinstance(a, STensor) or isinstance(b, STensor):
            if NUMPY_SIZE_ATTR:  # numpy model: sequences broadcast against arrays
                if isinstance(a, (tuple, list)):
                    a = STensor.from_nested(list(a))
                if isinstance(b, (tuple, list)):
                    b = STensor.from_nested(list(b))
            if t is ast.MatMult:
                return symt.matmul(a, b)
            if t is ast.BitAnd and isinstance(a, STensor):
                return a.logical_and(b)
            if t is ast.BitOr and isinstance(a, STensor):
                return a.logical_or(b)
            if isinstance(a, STensor):
                f = {ast.Add: a.add, ast.Sub: a.sub, ast.Mult: a.mul, ast.Div: a.div, ast.Pow: a.pow}.get(t)
                if t is ast.FloorDiv:
                    return a.div(b, rounding_mode="floor")
                if t is ast.Mod:
                    return a.remainder(b)
                if f is None:
                    self.unsupported(node, "tensor binary operator")
                return f(b)
            # scalar (op) tensor
            if t is ast.Add:
                return b.add(a)
            if t is ast.Mult:
                return b.mul(a)
            if t is ast.Sub:
                return b.neg().add(a)
            if t is ast.Div:
                return b.reciprocal().mul(a)
            if t is ast.Pow:
                self.unsupported(node, "scalar ** tensor")
            self.unsupported(node, "tensor binary operator")
        sym = isinstance(a, Rat) or isinstance(b, Rat)
        if sym:
            ra, rb = to_rat(a), to_rat(b)
            if t is ast.Add:
                return simplify(ra + rb)
            if t is ast.Sub:
                return simplify(ra - rb)
            if t is ast.Mult:
                return simplify(ra * rb)
            if t is ast.Div:
                try:
                    return simplify(ra / rb)
                except ZeroDivisionError:
                    raise InterpError("ZeroDivisionError", "division by zero")
            if t is ast.Pow:
                return simplify(symt.spow(ra, b))
            if t is ast.FloorDiv:
                return simplify(symt._floor_div(ra, rb, "floor"))
            self.unsupported(node, "symbolic binary operator")
        # concrete python values
        if isinstance(a, bool):
            a = int(a) if t not in (ast.BitAnd, ast.BitOr, ast.BitXor) else a
        if isinstance(b, bool):
            b = int(b) if t not in (ast.BitAnd, ast.BitOr, ast.BitXor) else b
        try:
            if t is ast.Div:
                if isinstance(a, (int, Fraction)) and isinstance(b, (int, Fraction)):
                    if b == 0:
                        raise InterpError("ZeroDivisionError", "division by zero")
                    r = Fraction(a) / Fraction(b)
                    return r  # python float semantics: keep as exact rational
            if t is ast.Pow and isinstance(a, (int, Fraction)) and isinstance(b, Fraction):
                if b.denominator == 1:
                    b = int(b)
                elif b == Fraction(1, 2):
                    return simplify(symt.sfunc("sqrt", a))
                else:
                    self.unsupported(node, "fractional power")
            if t is ast.Pow and isinstance(a, (int, Fraction)) and isinstance(b, int) and b < 0:
                return Fraction(a) ** b
            f = _BINOPS.get(t)
            if f is None:
                self.unsupported(node, "binary operator")
            if isinstance(a, Size) and t is ast.Add:
                return a + b
            return f(a, b)
        except ZeroDivisionError:
            raise InterpError("ZeroDivisionError", "division by zero")
        except TypeError as ex:
            raise InterpError("TypeError", str(ex))

    def _e_Compare(self, e, frame):
        left = self.eval(e.left, frame)
        result = True
        for op, r in zip(e.ops, e.comparators):
            right = self.eval(r, frame)
            v = self.compare(op, left, right, e)
            if isinstance(v, STensor):
                if len(e.ops) > 1:
                    v = bool(v)
                else:
                    return v
            if not v:
                return False
            left = right
        return result

    def compare(self, op, a, b, node=None):
        t = type(op)
        if t is ast.Is:
            return self._is(a, b)
        if t is ast.IsNot:
            return not self._is(a, b)
        if t is ast.In:
            return self._contains(b, a, node)
        if t is ast.NotIn:
            return not self._contains(b, a, node)
        name = {ast.Eq: "eq", ast.NotEq: "ne", ast.Lt: "lt", ast.LtE: "le", ast.Gt: "gt", ast.GtE: "ge"}[t]
        if isinstance(a, EnumVal) and isinstance(a.value, int) and self._is_int_enum(a.cls) and not isinstance(b, EnumVal):
            a = a.value
        if isinstance(b, EnumVal) and isinstance(b.value, int) and self._is_int_enum(b.cls) and not isinstance(a, EnumVal):
            b = b.value
        if isinstance(a, EnumVal) and isinstance(b, EnumVal) and name in ("lt", "le", "gt", "ge") and a.cls == b.cls:
            a, b = a.value, b.value
        if isinstance(a, STensor) or isinstance(b, STensor):
            if isinstance(a, STensor):
                if isinstance(b, (STensor, Rat, int, Fraction)):
                    return getattr(a, name)(b)
                return name == "ne"
            if isinstance(a, (Rat, int, Fraction)):
                flip = {"lt": "gt", "le": "ge", "gt": "lt", "ge": "le", "eq": "eq", "ne": "ne"}[name]
                return getattr(b, flip)(a)
            return name == "ne"
        if isinstance(a, Obj) and name in ("eq", "ne"):
            m = self.prog.find_method(a.cls, "__eq__")
            if m is not None:
                r = self.truth(self.method(a, "__eq__", b))
                return r if name == "eq" else not r
            return (a is b) if name == "eq" else (a is not b)
        if isinstance(a, Rat) or isinstance(b, Rat):
            if not (symt.is_scalar(a) and symt.is_scalar(b)):
                return name == "ne"
            return compare(name, a, b)
        if isinstance(a, (EnumVal, ClassVal, DType, Device)) or isinstance(b, (EnumVal, ClassVal, DType, Device)):
            if name == "eq":
                return a == b
            if name == "ne":
                return not (a == b)
            self.unsupported(node, "ordering comparison of non-numeric values")
        try:
            return _num_cmp(name, a, b)
        except TypeError as ex:
            raise InterpError("TypeError", str(ex))

    def _is(self, a, b) -> bool:
        if a is None or b is None:
            return a is b
        if isinstance(a, bool) or isinstance(b, bool):
            return a is b
        if isinstance(a, EnumVal) and isinstance(b, EnumVal):
            return a == b
        if isinstance(a, (ClassVal, DType)) and isinstance(b, (ClassVal, DType)):
            return a == b
        if isinstance(a, STensor) and isinstance(b, STensor):
            return a is b
        if isinstance(a, External) and isinstance(b, External):
            return a.name.split(".")[-1] == b.name.split(".")[-1]
        return a is b

    def _contains(self, container, item, node):
        if isinstance(container, (tuple, list, set, frozenset, dict, str, range)) or isinstance(container, type({}.keys())):
            if isinstance(item, (STensor,)):
                self.unsupported(node, "tensor membership")
            for x in container:
                if isinstance(x, STensor):
                    continue
                if self._eq_values(x, item):
                    return True
            return False
        if isinstance(container, ClassVal) and self._is_enum(container.cls):
            return isinstance(item, EnumVal) and item.cls == container.cls
        if isinstance(container, MM.HModuleDict):
            return item in container
        if isinstance(container, (Obj, STObj)) and self.prog.find_method(container.cls, "__contains__") is not None:
            return self.truth(self.method(container, "__contains__", item))
        self.unsupported(node, f"membership in {type(container).__name__}")

    def _eq_values(self, x, y) -> bool:
        if isinstance(x, Rat) or isinstance(y, Rat):
            if symt.is_scalar(x) and symt.is_scalar(y):
                return compare("eq", x, y)
            return False
        try:
            return bool(x == y)
        except Exception:
            return False

    def _e_Subscript(self, e, frame):
        c = self.eval(e.value, frame)
        k = self.eval(e.slice, frame)
        return self._getitem(c, k, e)

    def _getitem(self, c, k, node):
        if isinstance(c, (MM.HModuleDict, MM.HModuleList)):
            return c[self._index_value(k) if isinstance(c, MM.HModuleList) else k]
        if isinstance(c, STObj) and self.prog.find_method(c.cls, "__getitem__") is not None:
            return self.method(c, "__getitem__", k)
        if isinstance(c, STensor):
            return c[k]
        if isinstance(c, External):
            return c  # typing generics: Optional[...] etc.
        if isinstance(c, (tuple, list, str, range, Size)):
            k = self._index_value(k)
            try:
                return c[k]
            except (IndexError, TypeError) as ex:
                raise InterpError(type(ex).__name__, str(ex))
        if isinstance(c, dict):
            try:
                if isinstance(k, Fraction) and k.denominator == 1:
                    k = int(k)
                return c[k]
            except KeyError as ex:
                raise InterpError("KeyError", str(ex))
        if isinstance(c, Obj):
            m = self.prog.find_method(c.cls, "__getitem__")
            if m is not None:
                return self.method(c, "__getitem__", k)
        if isinstance(c, ClassVal):
            if self._is_enum(c.cls):
                return self._enum_member(c.cls, k)
            return c
        if isinstance(c, HostObject) and hasattr(c, "__getitem__"):
            return c[k]
        if isinstance(c, bytes):
            return c[k]
        import re as _re
        if isinstance(c, _re.Match):
            try:
                return c[k]
            except (IndexError, KeyError) as ex:
                raise InterpError(type(ex).__name__, str(ex))
        if isinstance(c, (int, float, Fraction, bool)) or c is None:
            raise InterpError("TypeError", f"'{type(c).__name__}' object is not subscriptable")  # what Python raises
        self.unsupported(node, f"subscript of {type(c).__name__}")

    def _index_value(self, k):
        if isinstance(k, slice):
            return slice(self._index_value(k.start), self._index_value(k.stop), self._index_value(k.step))
        if isinstance(k, STensor):
            k = k.item()
        if isinstance(k, EnumVal) and isinstance(k.value, int):
            return k.value
        k = simplify(k)
        if isinstance(k, Fraction) and k.denominator == 1:
            return int(k)
        return k

    def _e_Slice(self, e, frame):
        def ev(x):
            if x is None:
                return None
            v = self.eval(x, frame)
            return self._index_value(v)
        return slice(ev(e.lower), ev(e.upper), ev(e.step))

    def _e_Yield(self, e, frame):
        ok, ys = frame.lookup("__yields__")
        if not ok:
            self.unsupported(e, "yield outside generator")
        ys.append(self.eval(e.value, frame) if e.value is not None else None)
        return None

    def _e_Starred(self, e, frame):
        self.unsupported(e, "starred expression outside call/display")

    def _e_Lambda(self, e, frame):
        return FuncVal(None, e, frame.module, frame, None)

    def _e_NamedExpr(self, e, frame):
        v = self.eval(e.value, frame)
        self.assign(e.target, v, frame)
        return v

    def _comp(self, e, frame, emit):
        sub = Frame(frame.module, frame.cls, frame, frame.func_name)
        sub.self_obj = frame.self_obj

        def rec(i):
            if i == len(e.generators):
                emit(sub)
                return
            g = e.generators[i]
            for x in self.iterate(self.eval(g.iter, sub), g.iter):
                self.assign(g.target, x, sub)
                if all(self.truth(self.eval(c, sub), c) for c in g.ifs):
                    rec(i + 1)
        rec(0)

    def _e_ListComp(self, e, frame):
        out = []
        self._comp(e, frame, lambda f: out.append(self.eval(e.elt, f)))
        return out

    def _e_GeneratorExp(self, e, frame):
        return iter(self._e_ListComp(e, frame))

    def _e_SetComp(self, e, frame):
        return set(self._e_ListComp(e, frame))

    def _e_DictComp(self, e, frame):
        out = {}

        def emit(f):
            out[self.eval(e.key, f)] = self.eval(e.value, f)
        self._comp(e, frame, emit)
        return out

    def _e_Call(self, e, frame):
        # super()
        if isinstance(e.func, ast.Name) and e.func.id == "super" and not frame.lookup("super")[0]:
            f = frame
            while f is not None and (f.cls is None or f.self_obj is None):
                f = f.parent
            if f is None:
                self.unsupported(e, "super() outside method")
            return SuperProxy(f.self_obj, f.cls)
        fn = self.eval(e.func, frame)
        args: List[Any] = []
        for a in e.args:
            if isinstance(a, ast.Starred):
                args.extend(self.iterate(self.eval(a.value, frame), a))
            else:
                args.append(self.eval(a, frame))
        kwargs: Dict[str, Any] = {}
        for k in e.keywords:
            if k.arg is None:
                d = self.eval(k.value, frame)
                if not isinstance(d, dict):
                    self.unsupported(e, "** of non-dict")
                kwargs.update(d)
            else:
                kwargs[k.arg] = self.eval(k.value, frame)
        # builtins that need interpreter context
        if fn is _isinstance:
            return self._isinstance(args[0], args[1], e)
        if fn is _getattr:
            try:
                return self.getattr(args[0], args[1])
            except InterpError:
                if len(args) > 2:
                    return args[2]
                raise
        if fn is _hasattr:
            try:
                self.getattr(args[0], args[1])
                return True
            except InterpError:
                return False
        if fn is _setattr:
            self.setattr(args[0], args[1], args[2])
            return None
        if fn is _delattr:
            self.delattr(args[0], args[1])
            return None
        if fn is _str and args:
            return self.to_str(args[0])
        if fn is _callable:
            return isinstance(args[0], (FuncVal, BoundMethod, ClassVal, External, ModObj)) or callable(args[0])
        if fn is _type:
            v = args[0]
            if isinstance(v, (Obj, STObj)):
                return ClassVal(v.cls)
            if isinstance(v, EnumVal):
                return ClassVal(v.cls)
            if isinstance(v, STensor):
                return External("torch.Tensor")
            if isinstance(v, Fraction):
                return _float
            if isinstance(v, Size):
                return External("torch.Size")
            return _REV_TYPE_ALIASES.get(type(v), type(v))
        if fn is _len:
            v = args[0]
            if isinstance(v, Obj) or (isinstance(v, STObj) and self.prog.find_method(v.cls, "__len__") is not None):
                return self.method(v, "__len__")
            try:
                return len(v)
            except TypeError as ex:
                raise InterpError("TypeError", str(ex))
        if fn in (_any, _all, _tuple, _list, _sorted, _sum, _min, _max, _zip, _enumerate, _reversed, _map, _dict, _set):
            return self._builtin_iter(fn, args, kwargs, e)
        return self.call_value(fn, args, kwargs, e)

    def _builtin_iter(self, fn, args, kwargs, node):
        if fn is _map:
            f = args[0]
            its = [list(self.iterate(a, node)) for a in args[1:]]
            return [self.call_value(f, list(xs), {}) for xs in zip(*its)]
        if fn is _dict:
            d = {}
            if len(args) > 1:
                raise InterpError("TypeError", f"dict expected at most 1 argument, got {len(args)}")
            if args:
                src = args[0]
                if isinstance(src, dict):
                    d.update(src)
                else:
                    for k, v in self.iterate(src, node):
                        d[k] = v
            d.update(kwargs)
            return d
        if fn in (_min, _max) and len(args) > 1:
            vals = list(args)
            best = vals[0]
            for x in vals[1:]:
                if self.compare(ast.Lt() if fn is _min else ast.Gt(), x, best, node):
                    best = x
            return best
        if fn is _enumerate:
            start = kwargs.get("start", args[1] if len(args) > 1 else 0)
            return list(enumerate(list(self.iterate(args[0], node)), start))
        if fn is _sum:
            acc = args[1] if len(args) > 1 else 0
            for x in self.iterate(args[0], node):
                acc = self.binop(ast.Add(), acc, x, node)
            return acc
        seqs = [list(self.iterate(a, node)) for a in args]
        if fn is _any:
            return any(self.truth(x, node) for x in seqs[0])
        if fn is _all:
            return all(self.truth(x, node) for x in seqs[0])
        if fn is _tuple:
            return tuple(seqs[0]) if seqs else ()
        if fn is _list:
            return list(seqs[0]) if seqs else []
        if fn is _set:
            return set(seqs[0]) if seqs else set()
        if fn is _zip:
            return list(zip(*seqs))
        if fn is _enumerate:
            start = kwargs.get("start", args[1] if len(args) > 1 else 0)
            return list(enumerate(list(self.iterate(args[0], node)), start))
        if fn is _reversed:
            return list(reversed(seqs[0]))
        if fn is _sorted:
            key = kwargs.get("key")
            if key is not None:
                return sorted(seqs[0], key=lambda x: self.call_value(key, [x], {}), reverse=bool(kwargs.get("reverse", False)))
            if seqs[0] and all(isinstance(x, EnumVal) for x in seqs[0]):
                return sorted(seqs[0], key=lambda x: x.value, reverse=bool(kwargs.get("reverse", False)))
            return sorted(seqs[0], reverse=bool(kwargs.get("reverse", False)))
        if fn is _sum:
            acc = args[1] if len(args) > 1 else 0
            for x in seqs[0]:
                acc = self.binop(ast.Add(), acc, x, node)
            return acc
        if fn in (_min, _max):
            vals = seqs[0] if len(args) == 1 else list(args)
            if not vals:
                raise InterpError("ValueError", "min()/max() of empty sequence")
            best = vals[0]
            for x in vals[1:]:
                if self.compare(ast.Lt() if fn is _min else ast.Gt(), x, best, node):
                    best = x
            return best
        raise Unsupported("builtin")

    def _isinstance(self, v, cls, node) -> bool:
        if isinstance(cls, tuple):
            return any(self._isinstance(v, c, node) for c in cls)
        cls = _TYPE_ALIASES.get(cls, cls) if callable(cls) and not isinstance(cls, (ClassVal, External)) else cls
        if isinstance(cls, ClassVal):
            if isinstance(v, (Obj, STObj)):
                return cls.cls in self.prog.mro(v.cls)
            if isinstance(v, EnumVal):
                return cls.cls in self.prog.mro(v.cls)
            return False
        if isinstance(cls, External):
            n = cls.name.split(".")[-1]
            if n in ("Tensor",):
                return isinstance(v, STensor)
            if n == "Parameter":
                return isinstance(v, MM.Param)
            if n == "Module":
                return MM.is_module_value(v)
            if n == "ModuleDict":
                return isinstance(v, MM.HModuleDict)
            if n == "ModuleList":
                return isinstance(v, MM.HModuleList)
            if n in ("Size",):
                return isinstance(v, Size)
            if n in ("Sequence", "Iterable", "Collection"):
                return isinstance(v, (tuple, list, str, range))
            if n in ("Mapping", "MutableMapping", "dict", "OrderedDict"):
                return isinstance(v, dict)
            if n in ("ndarray",):
                return False
            if n in EXTERNAL_ISINSTANCE:
                return EXTERNAL_ISINSTANCE[n](v)
            if n in ("Number", "Real"):
                return isinstance(v, (int, Fraction, Rat)) and not isinstance(v, bool)
            if n in ("Integral",):
                return isinstance(v, int) or (isinstance(v, Rat) and symt.FACTS.is_integral(v))
            if n in ("Enum",):
                return isinstance(v, EnumVal)
            if n in ("Path", "PurePath", "Module", "dtype", "device"):
                if n == "dtype":
                    return isinstance(v, DType)
                if n == "device":
                    return isinstance(v, Device)
                return False
            self.unsupported(node, f"isinstance against external {cls.name}")
        if cls is int:
            if isinstance(v, EnumVal):
                return self._is_int_enum(v.cls)  # members of an IntEnum are ints
            return (isinstance(v, int) and True) or (isinstance(v, Rat) and symt.FACTS.is_integral(v))
        if cls is float:
            return isinstance(v, Fraction) or (isinstance(v, Rat) and not symt.FACTS.is_integral(v))
        if cls is bool:
            return isinstance(v, bool)
        if cls is str:
            return isinstance(v, str)
        if cls in (tuple, list, dict, set, slice, range, type(None)):
            return isinstance(v, cls)
        if isinstance(cls, type):
            return isinstance(v, cls)
        self.unsupported(node, f"isinstance against {cls!r}")

    # ------------------------------------------------------------------ external calls (torch, math, ...)
    def _call_external(self, name: str, args, kwargs, node):
        short = name.split(".")
        base = short[0]
        last = short[-1]
        if last == "_make_subclass":
            cls_, data = args[0], args[1]
            if not isinstance(cls_, ClassVal) or not isinstance(data, STensor):
                raise Unsupported("Tensor._make_subclass arguments")
            o = STObj(cls_.cls, data)
            if len(args) > 2:
                o.requires_grad = bool(args[2])
            return o
        if last in ("copy", "deepcopy") and short[0] == "copy" and args:
            x = args[0]
            if isinstance(x, (Obj, STObj)):
                special = "__copy__" if last == "copy" else "__deepcopy__"
                m = self.prog.find_method(x.cls, special)
                if m is not None:
                    return self.method(x, special) if last == "copy" else self.method(x, special, args[1] if len(args) > 1 else {})
                if isinstance(x, ModObj):
                    if last == "deepcopy":
                        raise Unsupported("deepcopy of nn.Module without __deepcopy__")
                    c = ModObj(x.cls)
                    c.attrs = dict(x.attrs)  # default copy.copy: new __dict__, containers shared
                    return c
        if last == "Parameter" and (short[0] in ("torch", "nn") or len(short) == 1):
            return MM.make_parameter(*args, **kwargs)
        if last == "ModuleDict":
            return MM.HModuleDict(*args)
        if last == "ModuleList":
            return MM.HModuleList(*args)
        if last == "OrderedDict":
            from collections import OrderedDict as _OD
            return _OD(*[list(self.iterate(a)) if not isinstance(a, dict) else a for a in args], **kwargs)
        if "init" in short and last.endswith("_") and args and isinstance(args[0], STensor):
            t = args[0]
            if last == "constant_":
                return t.fill_(args[1] if len(args) > 1 else kwargs.get("val"))
            if last == "zeros_":
                return t.fill_(0)
            if last == "ones_":
                return t.fill_(1)
            raise Unsupported(f"torch.nn.init.{last}")
        if name in _EXTERNAL_FUNCS:
            try:
                return _EXTERNAL_FUNCS[name](*args, **kwargs)
            except ZeroDivisionError:
                raise InterpError("ZeroDivisionError", "division by zero")
        if base in ("torch", "F") or name.startswith("torch.nn.functional"):
            fn = _TORCH.get(last)
            try:
                if fn is not None:
                    return fn(*args, **kwargs)
                # torch.<method>(tensor, ...) fallback
                if args and isinstance(args[0], STensor) and hasattr(STensor, last):
                    return getattr(args[0], last)(*args[1:], **kwargs)
            except TypeError as ex:
                raise Unsupported(f"model of torch.{last}: {ex}")
            raise Unsupported(f"torch function {name}")
        if base in ("typing", "Optional", "Union", "cast") or last in ("cast",):
            if last == "cast":
                return args[1]
            return External(name)
        if last in ("TypeVar", "NewType"):
            return External(name)
        if last == "warn":
            return None
        if last == "parse_version":
            return (99, 0)
        if last == "deprecated":
            return lambda f: f
        raise Unsupported(f"call of external {name}")


_DISPATCHED_METHODS = {"detach", "clone", "float", "double", "to", "type", "cpu", "contiguous", "add", "sub", "mul", "div", "neg",
                       "unsqueeze", "squeeze", "flip", "permute", "transpose", "reshape", "view", "abs", "clamp", "round"}


def _plain_arg(x):
    if isinstance(x, STObj):
        return x.plain()
    if isinstance(x, (list, tuple)):
        return type(x)(_plain_arg(v) for v in x)
    return x


def apply_torch_function(func, args, kwargs):
    """Model of ``Tensor.__torch_function__(func, types, args, kwargs)``: run func on the plain tensors."""
    name = func.name
    parts = name.split(".")
    last = parts[-1]
    a = [_plain_arg(x) for x in args]
    k = {kk: _plain_arg(v) for kk, v in (kwargs or {}).items()}
    is_method = len(parts) >= 3 and parts[-2] == "Tensor"
    if not is_method and last in _TORCH:
        return _TORCH[last](*a, **k)
    if a and isinstance(a[0], STensor) and hasattr(STensor, last):
        return getattr(a[0], last)(*a[1:], **k)
    raise Unsupported(f"torch function {name} is not modelled")


# ---------------------------------------------------------------------- builtins & external tables
def _num_cmp(op, a, b):
    return {"lt": operator.lt, "le": operator.le, "gt": operator.gt, "ge": operator.ge, "eq": operator.eq,
            "ne": operator.ne}[op](a, b)


_BINOPS = {ast.Add: operator.add, ast.Sub: operator.sub, ast.Mult: operator.mul, ast.FloorDiv: operator.floordiv,
           ast.Mod: operator.mod, ast.Pow: operator.pow, ast.BitAnd: operator.and_, ast.BitOr: operator.or_,
           ast.BitXor: operator.xor, ast.LShift: operator.lshift, ast.RShift: operator.rshift, ast.Div: operator.truediv}


def _isinstance(*a): raise RuntimeError
def _getattr(*a): raise RuntimeError
def _hasattr(*a): raise RuntimeError
def _setattr(*a): raise RuntimeError
def _delattr(*a): raise RuntimeError
def _callable(*a): raise RuntimeError
def _type(*a): raise RuntimeError
def _len(*a): raise RuntimeError
def _any(*a): raise RuntimeError
def _all(*a): raise RuntimeError
def _tuple(*a): raise RuntimeError
def _list(*a): raise RuntimeError
def _set(*a): raise RuntimeError
def _dict(*a): raise RuntimeError
def _sorted(*a): raise RuntimeError
def _sum(*a): raise RuntimeError
def _min(*a): raise RuntimeError
def _max(*a): raise RuntimeError
def _zip(*a): raise RuntimeError
def _enumerate(*a): raise RuntimeError
def _reversed(*a): raise RuntimeError
def _map(*a): raise RuntimeError


def _int(x=0, *a):
    if isinstance(x, STensor):
        x = x.item()
    x = simplify(x)
    if isinstance(x, bool):
        return int(x)
    if isinstance(x, int):
        return int(x)
    if isinstance(x, Fraction):
        return int(x)
    if isinstance(x, Rat):
        if symt.FACTS.is_integral(x):
            return x
        raise Unsupported(f"int() of non-integral symbolic value {x}")
    if isinstance(x, str):
        return int(x)
    raise InterpError("TypeError", f"int() argument {type(x).__name__}")


def _float(x=0):
    if isinstance(x, STensor):
        x = x.item()
    x = simplify(x)
    if isinstance(x, (int, bool)):
        return Fraction(x)
    if isinstance(x, (Fraction, Rat)):
        return x
    if isinstance(x, str):
        if x in ("inf", "-inf", "nan"):
            raise Unsupported("float('inf')")
        return Fraction(x)
    raise InterpError("TypeError", f"float() argument {type(x).__name__}")


def _bool(x=False):
    if isinstance(x, STensor):
        return bool(x)
    if isinstance(x, Rat):
        return symt._truth(x)
    return bool(x)


def _abs(x):
    if isinstance(x, STensor):
        return x.abs()
    if isinstance(x, Rat):
        return simplify(symt.sabs(x))
    return abs(x)


def _round(x, nd=None):
    if isinstance(x, Rat):
        return simplify(symt.sround(x, "round"))
    return round(x) if nd is None else round(x, nd)


def _range(*a):
    vals = []
    for x in a:
        if isinstance(x, STensor):
            x = x.item()
        x = simplify(x)
        if isinstance(x, Fraction) and x.denominator == 1:
            x = int(x)
        if not isinstance(x, int):
            raise Unsupported(f"range() with non-integer/symbolic bound {x}")
        vals.append(x)
    return range(*vals)


EXTERNAL_ISINSTANCE: Dict[str, Callable[[Any], bool]] = {}
FORMAT_HOOK = None  # optional: format(number, spec) in the text-header model
NUMPY_SIZE_ATTR = False  # numpy model installed: ``a.size`` is the element count (ndarray) *and* callable (torch ``t.size()``)


class _NumelOrSize(int):
    """``x.size``: ndarray attribute (number of elements) that can still be called like ``Tensor.size(dim)``."""

    def __new__(cls, t):
        self = int.__new__(cls, t.numel())
        self._t = t
        return self

    def __call__(self, *a, **k):
        return self._t.size(*a, **k)


STR_HOOK = None  # optional: str() of numbers in the numpy/text-header model (sa/iomodel.py)


def _str(x=""):
    if STR_HOOK is not None and isinstance(x, (STensor, Rat, Fraction)) and not (isinstance(x, STensor) and x.ndim > 0):
        return STR_HOOK(x)
    return str(x)


def _repr(x):
    return repr(x)


def _print(*a, **k):
    return None


def _divmod(a, b):
    return divmod(a, b)


def _id(x):
    return id(x)


def _iter(x):
    return iter(x)


def _next(it, *d):
    try:
        return next(it)
    except StopIteration:
        if d:
            return d[0]
        raise InterpError("StopIteration", "")


def _slice(*a):
    return slice(*[symt._as_index(x) for x in a])


_BUILTINS: Dict[str, Any] = {
    "isinstance": _isinstance, "getattr": _getattr, "hasattr": _hasattr, "setattr": _setattr, "delattr": _delattr, "callable": _callable,
    "type": _type, "len": _len, "any": _any, "all": _all, "tuple": _tuple, "list": _list, "set": _set, "dict": _dict,
    "sorted": _sorted, "sum": _sum, "min": _min, "max": _max, "zip": _zip, "enumerate": _enumerate, "reversed": _reversed,
    "map": _map, "int": _int, "float": _float, "bool": _bool, "abs": _abs, "round": _round, "range": _range, "str": _str,
    "repr": _repr, "print": _print, "divmod": _divmod, "id": _id, "iter": _iter, "next": _next, "slice": _slice,
    "True": True, "False": False, "None": None, "Ellipsis": Ellipsis, "NotImplemented": NotImplemented,
    "object": object, "frozenset": frozenset, "bytes": bytes,
}
# isinstance(x, int) etc. need the type objects: handled via identity on the wrapper functions
_TYPE_ALIASES = {_int: int, _float: float, _bool: bool, _str: str, _tuple: tuple, _list: list, _dict: dict, _set: set,
                 _slice: slice, _range: range}

_REV_TYPE_ALIASES = {v: k for k, v in _TYPE_ALIASES.items()}

PI = Rat.atom("pi")


def _math_fn(name):
    def f(x, *more):
        if isinstance(x, STensor):
            raise InterpError("TypeError", "math function on tensor")
        return simplify(symt.sfunc(name, x, *more))
    return f


def _math_sqrt(x):
    return simplify(symt.sfunc("sqrt", x))


def _math_floor(x):
    x = simplify(x)
    if isinstance(x, Rat):
        return simplify(symt.sround(x, "floor"))
    return math.floor(x)


def _math_ceil(x):
    x = simplify(x)
    if isinstance(x, Rat):
        return simplify(symt.sround(x, "ceil"))
    return math.ceil(x)


def _re_proxy(fname):
    import re as _re

    def f(*a, **k):
        return getattr(_re, fname)(*a, **k)
    return f


_EXTERNAL_VALUES: Dict[str, Any] = {
    "math.pi": PI, "torch.pi": PI, "numpy.pi": PI, "np.pi": PI,
    "torch.float": FLOAT, "torch.float32": FLOAT, "torch.double": symt.DOUBLE, "torch.float64": symt.DOUBLE,
    "torch.long": INT, "torch.int64": INT, "torch.int": symt.INT32, "torch.int32": symt.INT32, "torch.bool": BOOL,
    "torch.half": FLOAT, "torch.float16": FLOAT, "torch.uint8": symt.INT32, "torch.int16": symt.INT32, "torch.int8": symt.INT32,
    "torch.preserve_format": "preserve_format",
}

_EXTERNAL_FUNCS: Dict[str, Callable] = {
    "math.sqrt": _math_sqrt, "math.cos": _math_fn("cos"), "math.sin": _math_fn("sin"), "math.tan": _math_fn("tan"),
    "math.atan2": _math_fn("atan2"), "math.acos": _math_fn("acos"), "math.exp": _math_fn("exp"), "math.log": _math_fn("log"),
    "math.floor": _math_floor, "math.ceil": _math_ceil, "math.pow": lambda a, b: simplify(symt.spow(a, b)),
    "math.isclose": lambda a, b, **k: compare("eq", a, b), "math.prod": lambda it: _prod(it),
    "re.match": _re_proxy("match"), "re.sub": _re_proxy("sub"), "re.subn": _re_proxy("subn"), "re.search": _re_proxy("search"),
    "re.split": _re_proxy("split"), "re.findall": _re_proxy("findall"), "re.fullmatch": _re_proxy("fullmatch"),
    "re.compile": _re_proxy("compile"), "re.escape": _re_proxy("escape"), "re.finditer": _re_proxy("finditer"),
    "copy.copy": None, "copy.deepcopy": None,
    "torch.Size": lambda x=(): Size(_shape_of(x)), "torch.device": lambda *a, **k: CPU,
    "itertools.product": lambda *a, **k: list(__import__("itertools").product(*a, **k)),
    "itertools.permutations": lambda *a: list(__import__("itertools").permutations(*a)),
    "itertools.combinations": lambda *a: list(__import__("itertools").combinations(*a)),
    "itertools.repeat": lambda *a: __import__("itertools").repeat(*a),
    "functools.reduce": None,
}


def _prod(it):
    acc = 1
    for x in it:
        acc = acc * x
    return acc


def _shape_of(x):
    out = []
    for v in x:
        if isinstance(v, STensor):
            v = v.item()
        v = simplify(v)
        if isinstance(v, Fraction) and v.denominator == 1:
            v = int(v)
        out.append(v)
    return out


def _shallow_copy(x):
    if isinstance(x, Obj):
        o = Obj(x.cls)
        o.attrs = dict(x.attrs)
        return o
    if isinstance(x, STensor):
        return x
    import copy
    return copy.copy(x)


def _deep_copy(x, memo=None):
    if isinstance(x, Obj):
        o = Obj(x.cls)
        o.attrs = {k: _deep_copy(v) for k, v in x.attrs.items()}
        return o
    if isinstance(x, STensor):
        return x.clone()
    if isinstance(x, (list, tuple)):
        return type(x)(_deep_copy(v) for v in x)
    if isinstance(x, dict):
        return {k: _deep_copy(v) for k, v in x.items()}
    return x


_EXTERNAL_FUNCS["copy.copy"] = _shallow_copy
_EXTERNAL_FUNCS["copy.deepcopy"] = _deep_copy


def _mm_register_buffer(it, obj):
    return lambda name, tensor, persistent=True: MM.register_buffer(obj, name, tensor, persistent)


def _mm_register_parameter(it, obj):
    return lambda name, param: MM.register_parameter(obj, name, param)


def _mm_register_pre_hook(it, obj):
    def f(hook, **k):
        table = obj.attrs["_forward_pre_hooks"]
        key = len(table)
        table[key] = hook
        return MM.HookHandle(table, key)
    return f


def _mm_register_hook(it, obj):
    def f(hook, **k):
        table = obj.attrs["_forward_hooks"]
        key = len(table)
        table[key] = hook
        return MM.HookHandle(table, key)
    return f


def _mm_members(which, named):
    def g(it, obj):
        def f(prefix="", recurse=True, **k):
            items = list(MM.named_members(obj, which, prefix + ("." if prefix else ""), None, recurse))
            return iter(items if named else [v for _, v in items])
        return f
    return g


def _mm_children(named):
    def g(it, obj):
        return lambda: iter(list(MM.children(obj)) if named else [m for _, m in MM.children(obj)])
    return g


def _mm_modules(named):
    def g(it, obj):
        return lambda: iter(list(MM.named_modules(obj)) if named else [m for _, m in MM.named_modules(obj)])
    return g


def _mm_self(it, obj):
    return lambda *a, **k: obj


def _mm_call(it, obj):
    return lambda *a, **k: it.call_module(obj, list(a), k)


def _mm_requires_grad_(it, obj):
    """nn.Module.requires_grad_(flag): sets the flag on every parameter of the module tree (freezing keeps them Parameters)."""
    def f(requires_grad=True):
        for _, p in MM.named_members(obj, "_parameters"):
            if p is not None:
                p.requires_grad = bool(requires_grad)
        return obj
    return f


def _mm_add_module(it, obj):
    def f(name, module):
        obj.attrs["_modules"][name] = module
    return f


def _mm_get_name(it, obj):
    return lambda: obj.cls.name


_MODULE_METHODS: Dict[str, Callable] = {
    "register_buffer": _mm_register_buffer, "register_parameter": _mm_register_parameter,
    "register_forward_pre_hook": _mm_register_pre_hook, "register_forward_hook": _mm_register_hook,
    "named_buffers": _mm_members("_buffers", True), "buffers": _mm_members("_buffers", False),
    "named_parameters": _mm_members("_parameters", True), "parameters": _mm_members("_parameters", False),
    "named_children": _mm_children(True), "children": _mm_children(False),
    "named_modules": _mm_modules(True), "modules": _mm_modules(False),
    "to": _mm_self, "cpu": _mm_self, "cuda": _mm_self, "train": _mm_self, "eval": _mm_self, "float": _mm_self,
    "double": _mm_self, "requires_grad_": _mm_requires_grad_, "zero_grad": _mm_self, "__call__": _mm_call, "add_module": _mm_add_module,
    "_get_name": _mm_get_name, "extra_repr": lambda it, obj: (lambda: ""),
}


class _FInfo(HostObject):
    """torch.finfo in exact arithmetic: machine epsilons are 0 (stated assumption)."""
    tiny = 0
    eps = 0
    min = Fraction(-10**30)
    max = Fraction(10**30)


class _NoGrad:
    def __call__(self, *a, **k):
        if len(a) == 1 and isinstance(a[0], FuncVal):
            return a[0]
        return self


def _t_unary(name):
    def f(x, *a, **k):
        if not isinstance(x, STensor):
            x = symt.tensor(x)
        return getattr(x, name)(*a, **k)
    return f


def _t_is_tensor(x):
    return isinstance(x, STensor)


def _t_is_floating_point(x):
    return x.is_floating_point()


def _t_round(x, decimals=0, out=None):
    if symt.ROUND_EXACT[0] > 0 and isinstance(x, STensor):
        # inside round_decimals (exact arithmetic, rounding not modelled): same values, torch's result object (a new tensor, or `out`)
        if out is not None:
            return out if out is x else out.copy_(x)
        return x.clone()
    raise Unsupported("torch.round on symbolic values")


_TORCH: Dict[str, Callable] = {
    "tensor": symt.tensor, "as_tensor": symt.as_tensor, "zeros": symt.zeros, "ones": symt.ones, "empty": symt.empty,
    "full": symt.full, "eye": symt.eye, "diag": symt.diag, "arange": symt.arange, "linspace": symt.linspace,
    "cat": symt.cat, "stack": symt.stack, "matmul": symt.matmul, "mm": symt.mm, "bmm": symt.bmm, "inverse": symt.inverse,
    "where": symt.where, "allclose": symt.allclose, "linear": symt.linear, "atan2": symt.atan2, "meshgrid": symt.meshgrid, "grid_sample": symt.grid_sample, "pad": symt.fpad,
    "conv1d": symt.convnd, "conv2d": symt.convnd, "conv3d": symt.convnd,
    "conv_transpose1d": symt.conv_transpose_nd, "conv_transpose2d": symt.conv_transpose_nd, "conv_transpose3d": symt.conv_transpose_nd, "interpolate": symt.interpolate,
    "avg_pool1d": symt.avg_pool, "avg_pool2d": symt.avg_pool, "avg_pool3d": symt.avg_pool,
    "atleast_1d": lambda t: (t if isinstance(t, STensor) else symt.tensor(t)) if (isinstance(t, STensor) and t.ndim > 0) else (t if isinstance(t, STensor) else symt.tensor(t)).reshape(1) if (not isinstance(t, STensor) or t.ndim == 0) and not isinstance(t, (list, tuple)) else symt.tensor(t), "triu_indices": symt.triu_indices,
    "is_tensor": _t_is_tensor, "is_floating_point": _t_is_floating_point, "no_grad": _NoGrad(),
    "addcmul": lambda inp, t1, t2, value=1: inp.add(t1.mul(t2).mul(value)),
    "addcdiv": lambda inp, t1, t2, value=1: inp.add(t1.div(t2).mul(value)),
    "zeros_like": lambda t, **k: symt.zeros(t.shape, dtype=k.get("dtype", t.dtype)),
    "ones_like": lambda t, **k: symt.ones(t.shape, dtype=k.get("dtype", t.dtype)),
    "empty_like": lambda t, **k: symt.empty(t.shape, dtype=k.get("dtype", t.dtype)),
    "concat": symt.cat, "concatenate": symt.cat,
    "det": lambda t: t.det(), "Size": lambda x=(): Size(_shape_of(x)), "device": lambda *a, **k: CPU,
    "broadcast_shapes": lambda *s: Size(__import__("functools").reduce(symt.broadcast_shapes, s)),
    "isclose": lambda a, b, **k: a.eq(b), "equal": lambda a, b: tuple(a.shape) == tuple(b.shape) and bool(a.eq(b).all()),
    "clone": lambda t, **k: t.clone(), "round": _t_round,
    "normalize": lambda t, p=2, dim=-1, **k: t.div(t.norm(p, dim, True)),
    "finfo": lambda dt=None: _FInfo(), "iinfo": lambda dt=None: _FInfo(),
    "log1p": lambda t: symt.STensor.from_flat([symt.sfunc("log", to_rat(x) + 1) for x in t.flat()], t.shape, FLOAT),
}
for _n in ("cos", "sin", "tan", "tanh", "atanh", "exp", "log", "acos", "asin", "atan", "sqrt", "abs", "neg", "square",
           "sum", "prod", "mean", "flip", "transpose", "reshape", "flatten", "squeeze", "unsqueeze", "clamp", "clip",
           "add", "sub", "mul", "div", "pow", "ceil", "floor", "narrow", "unbind", "split", "chunk", "diagonal", "reciprocal",
           "eq", "ne", "lt", "le", "gt", "ge", "any", "all", "norm", "dot", "cross", "permute", "select", "max", "min"):
    _TORCH.setdefault(_n, _t_unary(_n))
