import warnings; warnings.filterwarnings("ignore")
import itertools, math, torch
import deepali.core.functional as U
from deepali.core import bspline as B, kernels as K
from deepali.core.linalg import homogeneous_matmul, as_homogeneous_matrix, homogeneous_transform
torch.manual_seed(0)
# B-spline weights
for s in (1,3,5):
    t = torch.arange(0,1,1/s, dtype=torch.float64)
    basis = [ (1-t)**3/6, (3*t**3-6*t**2+4)/6, (-3*t**3+3*t**2+3*t+1)/6, t**3/6 ]
    d1 = [ -(1-t)**2/2, (9*t**2-12*t)/6, (-9*t**2+6*t+3)/6, t**2/2 ]
    d2 = [ (1-t), 3*t-2, -3*t+1, t ]
    d3 = [ -torch.ones_like(t), 3*torch.ones_like(t), -3*torch.ones_like(t), torch.ones_like(t)]
    for d, ref in enumerate([basis,d1,d2,d3]):
        w = B.cubic_bspline_interpolation_weights(s, d, dtype=torch.float64)
        err = max(float((w[:,k]-ref[k]).abs().max()) for k in range(4))
        print("bspline stride",s,"deriv",d,"err",err)
# cubic_bspline_value vs basis
t=0.3
print("value", [K.cubic_bspline_value(t+1-k) for k in range(4)], [(1-t)**3/6,(3*t**3-6*t**2+4)/6,(-3*t**3+3*t**2+3*t+1)/6,t**3/6])
print("value d1", [K.cubic_bspline_value(t+1-k,1) for k in range(4)], [-(1-t)**2/2,(9*t**2-12*t)/6,(-9*t**2+6*t+3)/6,t**2/2])
print("value d2", [K.cubic_bspline_value(t+1-k,2) for k in range(4)], [1-t,3*t-2,-3*t+1,t])
# hmm 9 arms (batched N=2, D=3)
D=3; N=2
def mk(kind):
    if kind=="t": return torch.randn(N,D,1)
    if kind=="a": return torch.randn(N,D,D)
    return torch.randn(N,D,D+1)
def full(m):
    if m.shape[-1]==1: return torch.cat([torch.eye(D).expand(N,D,D), m], -1)
    if m.shape[-1]==D: return torch.cat([m, torch.zeros(N,D,1)], -1)
    return m
for ka,kb in itertools.product("tah","tah"):
    a,b = mk(ka), mk(kb)
    c = homogeneous_matmul(a,b)
    fa, fb = full(a), full(b)
    A = fa[...,:D] @ fb[...,:D]; tt = fa[...,:D] @ fb[...,D:] + fa[...,D:]
    ref = torch.cat([A,tt],-1)
    print("hmm",ka,kb, float((full(c)-ref).abs().max()))
# jacobian_det 3D vs torch.det on random smooth field
u = torch.randn(1,3,6,7,8).double()
jm = U.jacobian_matrix(u, add_identity=True)
jd = U.jacobian_det(u, add_identity=True)
print("jacdet 3D", float((torch.det(jm).unsqueeze(1)-jd).abs().max()))
u2 = torch.randn(1,2,6,7).double()
print("jacdet 2D", float((torch.det(U.jacobian_matrix(u2, add_identity=True)).unsqueeze(1)-U.jacobian_det(u2, add_identity=True)).abs().max()))
# quaternion <-> matrix
q = torch.nn.functional.normalize(torch.randn(5,4), dim=-1)
m = U.quaternion_to_rotation_matrix(q)
q2 = U.rotation_matrix_to_quaternion(m)
print("quat rt", float(torch.minimum((q-q2).abs().max(-1).values,(q+q2).abs().max(-1).values).max()), "orth", float((m@m.transpose(1,2)-torch.eye(3)).abs().max()), "det", torch.det(m).tolist())
# finite differences on linear ramp
x = torch.arange(10.).reshape(1,1,1,10).expand(1,1,6,10).contiguous()*0.5
for mode in ("forward","backward","central","forward_central_backward"):
    d = U.finite_differences(x, "x", mode=mode, spacing=0.25)
    print("fd", mode, d[0,0,0].tolist())
