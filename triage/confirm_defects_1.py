import warnings; warnings.filterwarnings("ignore")
import math, torch, traceback
from deepali.core import Grid, Axes
import deepali.core.functional as U
import deepali.core.affine as A
import deepali.losses.functional as L
import deepali.spatial as S
from deepali.data import FlowFields, Image, ImageBatch

def attempt(name, fn):
    try:
        r = fn()
        print(f"[ok ] {name}: {r}")
    except Exception as e:
        print(f"[ERR] {name}: {type(e).__name__}: {str(e)[:150]}")

attempt("euler_rotation_order('Rz o Rx o Rz')", lambda: A.euler_rotation_order("Rz o Rx o Rz"))
attempt("euler_rotation_matrix fallback unbatched YZX", lambda: A.euler_rotation_matrix(torch.tensor([0.1,0.2,0.3]), order="YZX").shape)
attempt("euler_rotation_matrix fallback batched YZX", lambda: A.euler_rotation_matrix(torch.tensor([[0.1,0.2,0.3]]), order="YZX").shape)
attempt("euler_rotation_matrix fallback batched homogeneous", lambda: A.euler_rotation_matrix(torch.tensor([[0.1,0.2,0.3]]), order="YZX", homogeneous=True).shape)
def rt(order):
    a = torch.tensor([[0.3, 0.7, -0.4]])
    m = A.euler_rotation_matrix(a, order=order)
    b = A.euler_rotation_angles(m, order=order)
    m2 = A.euler_rotation_matrix(b, order=order)
    return (b.tolist(), float((m-m2).abs().max()))
attempt("euler angles roundtrip ZXZ", lambda: rt("ZXZ"))
attempt("euler angles roundtrip XZX", lambda: rt("XZX"))
attempt("tversky_loss", lambda: L.tversky_loss(torch.rand(1,1,4,4), torch.rand(1,1,4,4).round()))
attempt("lame (nu,E)", lambda: L.lame_parameters(poissons_ratio=0.3, youngs_modulus=2.0))
attempt("lame (lambda,E)", lambda: L.lame_parameters(first_parameter=1.0, youngs_modulus=2.0))
attempt("conv 2d kernel", lambda: U.conv(torch.rand(1,1,8,8), torch.ones(3,3)/9).shape)
attempt("region_of_interest 2D seq", lambda: U.region_of_interest(torch.rand(1,1,8,8), (1,1), (4,4)).shape)
g = Grid(size=(8,8))
attempt("HomogeneousTransform default identity", lambda: S.HomogeneousTransform(g).tensor().tolist())
g3 = Grid(size=(8,8,8))
attempt("QuaternionRotation default", lambda: S.QuaternionRotation(g3).tensor().tolist())
def mlt():
    t = S.MultiLevelTransform(S.Translation(g, params=False), S.Translation(g, params=False))
    x = torch.tensor([[[0.5, 0.25]]])
    return t(x).tolist()
attempt("MultiLevelTransform linear default", mlt)
def mlt2():
    t = S.MultiLevelTransform(S.HomogeneousTransform(g, params=torch.eye(2,3).unsqueeze(0)), S.Translation(g, params=False))
    x = torch.tensor([[[0.5, 0.25]]])
    y = t(x); return y.tolist(), t[0].params.tolist()
attempt("MultiLevel alias param mutate", mlt2)
# FlowFields.exp with GRID axes
def fexp():
    gg = Grid(size=(16,16))
    v = torch.zeros(1,2,16,16); v[:,0] = 0.05
    f = FlowFields(v, gg)  # cube corners
    e1 = f.exp().tensor()
    f2 = f.axes(Axes.GRID)
    e2 = f2.exp().axes(Axes.CUBE_CORNERS).tensor()
    return float((e1-e2).abs().max())
attempt("FlowFields.exp repr independence (max diff)", fexp)
def icl():
    gg = Grid(size=(9,9), align_corners=False)
    fwd = torch.zeros(1,2,9,9); fwd[:,0]=0.1
    inv = torch.zeros(1,2,9,9)
    a = L.inverse_consistency_loss(fwd, inv, gg, units="voxel")
    return float(a), "expected", 0.1*9/2
attempt("inverse_consistency voxel align_corners=False", icl)
