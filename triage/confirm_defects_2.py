import warnings; warnings.filterwarnings("ignore")
import math, torch, tempfile, os
from deepali.core import Grid, Axes
import deepali.core.functional as U
import deepali.core.image as UI
import deepali.spatial as S
from deepali.data import FlowFields, FlowField, Image, ImageBatch

def attempt(name, fn):
    try:
        r = fn()
        print(f"[ok ] {name}: {r}")
    except Exception as e:
        print(f"[ERR] {name}: {type(e).__name__}: {str(e)[:150]}")

g = Grid(size=(8,8))
attempt("Translation.matrix()", lambda: S.Translation(g).matrix().shape)
attempt("region_of_interest 2D seq", lambda: UI.region_of_interest(torch.rand(1,1,8,8), (1,1), (4,4)).shape)
attempt("region_of_interest 3D seq", lambda: UI.region_of_interest(torch.rand(1,1,8,8,8), (1,1,1), (4,4,4)).shape)
def nifti(D):
    gg = Grid(size=(5,6,7)[:D], spacing=(1.,2.,3.)[:D], origin=(3.,4.,5.)[:D])
    im = Image(torch.rand((1,)+gg.shape), gg)
    d = tempfile.mkdtemp(); p = os.path.join(d, "a.nii.gz")
    im.write(p); im2 = Image.read(p)
    return im2.grid().origin().tolist(), im2.grid().spacing().tolist(), float((im2.tensor()-im.tensor()).abs().max())
attempt("nifti 3D roundtrip", lambda: nifti(3))
attempt("nifti 2D roundtrip", lambda: nifti(2))
def mha(D, C=1):
    gg = Grid(size=(5,6,7)[:D], spacing=(1.,2.,3.)[:D], origin=(3.,4.,5.)[:D])
    im = Image(torch.rand((C,)+gg.shape), gg)
    d = tempfile.mkdtemp(); p = os.path.join(d, "a.mha")
    im.write(p); im2 = Image.read(p)
    return im2.grid().origin().tolist(), im2.grid().spacing().tolist(), tuple(im2.shape), float((im2.tensor()-im.tensor()).abs().max())
attempt("mha 3D roundtrip", lambda: mha(3))
attempt("mha 2D roundtrip", lambda: mha(2))
attempt("mha 3D C=2 roundtrip", lambda: mha(3,2))
def sample_single():
    b = ImageBatch(torch.rand(3,1,8,8), [Grid(size=(8,8), center=(i,0)) for i in range(3)])
    out = b.sample(Grid(size=(4,4)))
    return len(out.grids()), out.shape[0]
attempt("ImageBatch.sample single grid N=3 -> (len grids, N)", sample_single)
def flipb():
    b = ImageBatch(torch.arange(3.).reshape(3,1,1,1).expand(3,1,4,4).clone(), [Grid(size=(4,4), center=(i,0)) for i in range(3)])
    f = torch.flip(b, dims=(0,))
    return type(f).__name__, [float(f.tensor()[i,0,0,0]) for i in range(3)], [gr.center()[0].item() for gr in f.grids()]
attempt("flip batch dim", flipb)
def svfgrid():
    gg = Grid(size=(9,9), align_corners=True)
    t = S.StationaryVelocityFieldTransform(gg)
    t2 = t.grid(Grid(size=(9,9), align_corners=False, center=(0.5,0)))
    return t.exp.align_corners, t2.exp.align_corners, t.exp is t2.exp, tuple(t.params.shape)
attempt("SVF grid() accessor mutates original.exp.align_corners", svfgrid)
def dispgrid():
    gg = Grid(size=(9,9))
    t = S.DisplacementFieldTransform(gg)
    t2 = t.grid(Grid(size=(5,5)))
    return tuple(t.params.shape), tuple(t2.params.shape), t.grid().size()
attempt("DDF grid() accessor mutates original params", dispgrid)
def unlink():
    t = S.Translation(g); u = t.unlink(); return t.params
attempt("unlink() accessor leaves original", unlink)
def cond():
    t = S.Translation(g); c = t.condition(1, a=2); return c.condition(), t.condition()
attempt("condition(1,a=2)", cond)
