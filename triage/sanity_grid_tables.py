import warnings; warnings.filterwarnings("ignore")
import itertools, math, torch
from deepali.core import Grid, Axes, Cube
from deepali.core.linalg import hmm, homogeneous_transform
import deepali.core.functional as U
torch.manual_seed(0)
def rot3(a,b,c):
    return U.euler_rotation_matrix(torch.tensor([a,b,c]).unsqueeze(0), order="ZXZ")[0]
for D, ac in itertools.product((2,3),(True,False)):
    size = (7,5,9)[:D]; spacing=(0.5,1.25,2.0)[:D]; center=(3.,-2.,1.5)[:D]
    direction = rot3(0.3,0.5,-0.2).double() if D==3 else torch.tensor([[math.cos(.4),-math.sin(.4)],[math.sin(.4),math.cos(.4)]])
    g = Grid(size=size, spacing=spacing, center=center, direction=direction.float(), align_corners=ac)
    AX = list(Axes)
    worst = 0
    for a,b in itertools.product(AX,AX):
        M1 = g.transform(a,b); M2 = g.transform(b,a)
        I = hmm(M2, M1)
        worst = max(worst, float((I - torch.eye(D, D+1)).abs().max()))
    tri = 0
    for a,b,c in itertools.product(AX,AX,AX):
        tri = max(tri, float((hmm(g.transform(b,c), g.transform(a,b)) - hmm(g.transform(a,c), torch.eye(D))).abs().max()))
    vec = 0
    v = torch.randn(4, D)
    for a,b in itertools.product(AX,AX):
        lin = g.transform(a,b,vectors=True)
        lin = lin if lin.shape[-1]==D else lin[:, :D]
        pm = g.transform(a,b)[:, :D]
        vec = max(vec, float((lin-pm).abs().max()), float((g.transform_vectors(v,a,b) - v @ pm.T).abs().max()))
    # anchors
    idx0 = torch.zeros(1,D); idxn = torch.tensor([[n-1. for n in size]])
    a1 = float((g.transform_points(idx0, Axes.GRID, Axes.WORLD) - g.origin()).abs().max())
    a2 = float((g.transform_points(idx0, Axes.GRID, Axes.CUBE_CORNERS) + 1).abs().max())
    a3 = float((g.transform_points(idxn, Axes.GRID, Axes.CUBE_CORNERS) - 1).abs().max())
    a4 = float((g.transform_points(idx0 - .5, Axes.GRID, Axes.CUBE) + 1).abs().max())
    a5 = float((g.transform_points(idxn/2, Axes.GRID, Axes.WORLD) - g.center()).abs().max())
    # coords
    cc = g.coords(align_corners=ac)
    want = g.transform_points(g.coords(normalize=False).float(), Axes.GRID, Axes.from_align_corners(ac), decimals=None)
    a6 = float((cc - want).abs().max())
    print(D, ac, "inv", worst, "tri", tri, "vec", vec, "anchors", a1,a2,a3,a4,a5, "coords", a6, tuple(cc.shape))
