import warnings; warnings.filterwarnings("ignore")
import torch
from deepali.core import Grid
from deepali.data import FlowFields, ImageBatch
gs=[Grid(size=(4,4), center=(i,0)) for i in range(3)]
f = FlowFields(torch.zeros(3,2,4,4), gs)
r = torch.narrow(f, 0, 1, 2)
print(type(r).__name__, tuple(r.shape), len(r.grids()) if hasattr(r,"grids") else None, [g.center()[0].item() for g in r.grids()] if hasattr(r,"grids") else None)
b = ImageBatch(torch.zeros(3,1,4,4), gs)
r = torch.narrow(b, 0, 1, 2)
print(type(r).__name__, tuple(r.shape))
r = f.mean(dim=0, keepdim=True)
print(type(r).__name__, tuple(r.shape), len(r.grids()) if hasattr(r,"grids") else None)
