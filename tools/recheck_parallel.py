#!/venv/bin/python
"""Maintenance: like recheck_seeds.py, but several seeds at a time (one scratch worktree of /repo HEAD per worker under /tmp/wt/_rc_<k>).
usage: tools/recheck_parallel.py [-j N] [seed names or property ids ...]   (default: all stored seeds). Refreshes meta.json 'checks'."""
import glob, json, os, subprocess, sys
from concurrent.futures import ThreadPoolExecutor
import queue

def sh(cmd, cwd=None, env=None):
    p = subprocess.run(cmd, shell=True, cwd=cwd, env=env, stdout=subprocess.PIPE, stderr=subprocess.STDOUT, text=True)
    return p.returncode, p.stdout

args = sys.argv[1:]
jobs = 6
if args and args[0] == "-j":
    jobs = int(args[1]); args = args[2:]
only = set(args)
head = subprocess.check_output(["git", "-C", "/repo", "rev-parse", "HEAD"], text=True).strip()
seeds = [d for d in sorted(glob.glob("/verif/seeded/*")) if not only or os.path.basename(d) in only or os.path.basename(d).split("-")[0] in only
         or os.path.basename(d).split("-")[1] in only]
wts = queue.Queue()
for k in range(jobs):
    wt = f"/tmp/wt/_rc_{k}"
    if not os.path.isdir(wt):
        sh(f"git -C /repo worktree add -q --detach {wt} HEAD")
    wts.put(wt)

def one(d):
    name = os.path.basename(d)
    meta = json.load(open(f"{d}/meta.json"))
    prop = meta["property"]
    wt = wts.get()
    try:
        sh(f"git checkout -q -- . && git checkout -q --detach {head}", cwd=wt)
        rc, out = sh(f"git apply --check {d}/patch.diff", cwd=wt)
        if rc != 0:
            meta["checks"] = {"note": "patch no longer applies to /repo HEAD (code changed by a later fix commit)"}
            json.dump(meta, open(f"{d}/meta.json", "w"), indent=1)
            return name, "patch does not apply any more", False
        sh(f"git apply {d}/patch.diff", cwd=wt)
        rcc, outc = sh(f"./check {prop} --no-evidence", cwd="/verif", env=dict(os.environ, VERIF_REPO=wt, VERIF_JOBS="4"))
        lines = [l.strip()[:220] for l in outc.splitlines() if l.strip().startswith("src/")][:3]
        sh("git checkout -q -- .", cwd=wt)
        checks = meta.get("checks") if isinstance(meta.get("checks"), dict) else {}
        checks = {k: v for k, v in checks.items() if k.startswith("C") and k != prop}
        checks[prop] = {"exit": rcc, "reports": lines}
        meta["checks"] = checks
        json.dump(meta, open(f"{d}/meta.json", "w"), indent=1)
        rule = (lines[0].split("]")[0].split("[")[-1] if lines else "-")
        return name, f"{'detected' if rcc == 1 else 'NOT DETECTED'} exit={rcc} rule={rule}", rcc == 1
    finally:
        wts.put(wt)

missed = []
with ThreadPoolExecutor(jobs) as ex:
    for name, msg, ok in ex.map(one, seeds):
        print(f"{name}: {msg}", flush=True)
        if not ok:
            missed.append(name)
print("missed:", missed)
sys.exit(1 if missed else 0)
