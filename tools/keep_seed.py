#!/venv/bin/python
"""Verify a seeded change produced by a sub-agent and keep it under /verif/seeded/<id>/.

usage: tools/keep_seed.py <PROP> <variant a|b> [--as c] [--wt /tmp/wt/<PROP>] [--skip-tests] [check ids]
Confirms in the scratch worktree: patch applies to pristine tree; existing test suite passes with the change; demo fails
with the change and passes without. Then runs the registered checks of /verif against /repo with the patch applied
(and undoes it) and records which check reported it.
"""
import json
import os
import shutil
import subprocess
import sys


def sh(cmd, cwd=None, env=None, timeout=3600):
    p = subprocess.run(cmd, shell=True, cwd=cwd, env=env, stdout=subprocess.PIPE, stderr=subprocess.STDOUT, timeout=timeout, text=True)
    return p.returncode, p.stdout


def main():
    prop, var = sys.argv[1], sys.argv[2]
    wt = f"/tmp/wt/{prop}"
    skip_tests = "--skip-tests" in sys.argv
    checks = [a for a in sys.argv[3:] if a.startswith("C")] or [prop]
    if "--wt" in sys.argv:
        wt = sys.argv[sys.argv.index("--wt") + 1]
    src = f"{wt}/_seed/{var}"
    patch = f"{src}/patch.diff"
    env = dict(os.environ, PYTHONPATH=f"{wt}/src")
    rc, out = sh("git status --porcelain --untracked-files=no", cwd=wt)
    assert out.strip() == "", f"worktree dirty: {out}"
    rc, out = sh(f"git apply --check {patch}", cwd=wt)
    assert rc == 0, f"patch does not apply in worktree: {out}"
    ran = {}
    # demo without change
    rc0, out0 = sh(f"/venv/bin/python {src}/demo.py", cwd=wt, env=env)
    ran["demo_without_change"] = {"exit": rc0, "tail": out0.strip().splitlines()[-3:]}
    sh(f"git apply {patch}", cwd=wt)
    try:
        rc1, out1 = sh(f"/venv/bin/python {src}/demo.py", cwd=wt, env=env)
        ran["demo_with_change"] = {"exit": rc1, "tail": out1.strip().splitlines()[-3:]}
        if not skip_tests:
            rct, outt = sh("/venv/bin/python -m pytest -q -p no:cacheprovider -x 2>&1 | tail -3", cwd=wt, env=env)
            summary = [l for l in outt.splitlines() if "passed" in l or "failed" in l]
            ran["tests_with_change"] = summary[-1] if summary else outt[-200:]
    finally:
        sh("git checkout -- .", cwd=wt)
    ok = rc0 == 0 and rc1 != 0 and (skip_tests or ("passed" in ran["tests_with_change"] and "failed" not in ran["tests_with_change"]))
    print(json.dumps(ran, indent=1))
    if not ok:
        print("NOT CONFIRMED")
        sys.exit(1)
    # run our checks against /repo with the patch
    caught = {}
    chk = os.environ.get("VERIF_CHK_WT", "/tmp/wt/_chk")  # scratch worktree kept at /repo's HEAD (so that concurrent check runs on /repo are not disturbed)
    head_repo = subprocess.check_output(["git", "-C", "/repo", "rev-parse", "HEAD"], text=True).strip()
    sh("git checkout -q -- . && git checkout -q --detach " + head_repo, cwd=chk)
    rc, out = sh(f"git apply --check {patch}", cwd=chk)
    if rc != 0:
        caught = {"note": "patch no longer applies to /repo HEAD (code changed by a later fix commit)"}
    else:
        sh(f"git apply {patch}", cwd=chk)
        try:
            for c in checks:
                rcc, outc = sh(f"./check {c} --no-evidence", cwd="/verif", env=dict(os.environ, VERIF_REPO=chk))
                lines = [l.strip()[:220] for l in outc.splitlines() if l.strip().startswith("src/")][:3]
                caught[c] = {"exit": rcc, "reports": lines}
        finally:
            sh("git checkout -q -- .", cwd=chk)
    store_as = sys.argv[sys.argv.index("--as") + 1] if "--as" in sys.argv else var
    dst = f"/verif/seeded/{prop}-{store_as}"
    os.makedirs(dst, exist_ok=True)
    shutil.copy(patch, f"{dst}/patch.diff")
    shutil.copy(f"{src}/demo.py", f"{dst}/demo.py")
    notes = open(f"{src}/notes.md").read() if os.path.exists(f"{src}/notes.md") else ""
    with open(f"{dst}/notes.md", "w") as f:
        f.write(notes)
    head = subprocess.check_output(["git", "-C", wt, "rev-parse", "--short", "HEAD"], text=True).strip()
    meta = {
        "property": prop,
        "variant": store_as,
        "base_commit": head,
        "needs_to_manifest": (notes.split("\n\n")[0][:600] if notes else ""),
        "ran": ran,
        "commands": [f"cd <worktree> && git apply patch.diff && PYTHONPATH=<worktree>/src /venv/bin/python -m pytest -q -p no:cacheprovider",
                     "PYTHONPATH=<worktree>/src /venv/bin/python demo.py  (exit != 0 with the change, 0 without)",
                     "tools/try_seed.sh /verif/seeded/<id>-<v>/patch.diff <id>   (scratch worktree + VERIF_REPO; /repo itself is never patched)"],
        "checks": caught,
    }
    with open(f"{dst}/meta.json", "w") as f:
        json.dump(meta, f, indent=1)
    print("KEPT", dst, json.dumps(caught)[:400])


if __name__ == "__main__":
    main()
