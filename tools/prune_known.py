#!/venv/bin/python
"""Maintenance (never run by a check): drop known-findings entries that today's checks no longer report."""
import json, subprocess, sys
d = json.load(open('/verif/known_findings.json'))
props = sorted({k['property'] for k in d['known']})
stale = set()
for p in props:
    out = subprocess.run(['./check', p, '--no-evidence'], cwd='/verif', capture_output=True, text=True).stdout
    for l in out.splitlines():
        if l.startswith('note: known finding no longer reported'):
            stale.add((p, l.split(': ', 1)[1].strip()))
n = len(d['known'])
d['known'] = [k for k in d['known'] if (k['property'], k['key']) not in stale]
json.dump(d, open('/verif/known_findings.json', 'w'), indent=1)
print(f"removed {n - len(d['known'])} stale entries; {len(d['known'])} remain")
