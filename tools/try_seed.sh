#!/bin/bash
# usage: tools/try_seed.sh <patch.diff> <prop> [<prop> ...]
# Apply a seeded change to a scratch worktree kept at /repo's HEAD (/tmp/wt/_chk), run the checks on it, undo.
set -u
patch="$(readlink -f "$1")"; shift
chk=${VERIF_TRY_WT:-/tmp/wt/_try}
[ -d "$chk" ] || git -C /repo worktree add -q --detach "$chk" HEAD
cd "$chk" || exit 2
git checkout -q -- . && git checkout -q --detach "$(git -C /repo rev-parse HEAD)"
if ! git apply --check "$patch" 2>/dev/null; then echo "PATCH DOES NOT APPLY: $patch"; exit 3; fi
git apply "$patch"
cd /verif
for p in "$@"; do
  VERIF_REPO=$chk ./check "$p" --no-evidence 2>&1 | grep -v "^VIOLATION\|^KNOWN-FINDING" | cut -c1-300 | head -8
  echo "exit=${PIPESTATUS[0]}"
done
git -C "$chk" checkout -q -- .
