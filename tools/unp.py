#!/venv/bin/python
"""Print the ast.unparse-normalised source of a function (for writing mutant specs): tools/unp.py <module> <qualname>"""
import ast, sys
sys.path.insert(0, "/verif")
from sa.index import load_program
from sa.props.common import find_def
prog = load_program(None)
mi = prog.module(sys.argv[1])
fn = find_def(ast.parse(mi.source), sys.argv[2])
src = ast.unparse(fn)
# drop docstring lines for brevity
print(src)
