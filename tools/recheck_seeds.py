#!/venv/bin/python
"""Maintenance: re-run the property's check on every stored seed (scratch worktree /tmp/wt/_try at /repo HEAD + VERIF_REPO) and
refresh the 'checks' section of seeded/<id>-<v>/meta.json. Prints a table; exit 1 if a seed is not detected by its own property."""
import glob, json, os, subprocess, sys

def sh(cmd, cwd=None, env=None):
    p = subprocess.run(cmd, shell=True, cwd=cwd, env=env, stdout=subprocess.PIPE, stderr=subprocess.STDOUT, text=True)
    return p.returncode, p.stdout

wt = "/tmp/wt/_try"
head = subprocess.check_output(["git", "-C", "/repo", "rev-parse", "HEAD"], text=True).strip()
if not os.path.isdir(wt):
    sh(f"git -C /repo worktree add -q --detach {wt} HEAD")
missed = []
only = set(sys.argv[1:])
for d in sorted(glob.glob("/verif/seeded/*")):
    name = os.path.basename(d)
    if only and name.split("-")[0] not in only and name not in only:
        continue
    meta = json.load(open(f"{d}/meta.json"))
    prop = meta["property"]
    sh(f"git checkout -q -- . && git checkout -q --detach {head}", cwd=wt)
    rc, out = sh(f"git apply --check {d}/patch.diff", cwd=wt)
    if rc != 0:
        meta["checks"] = {"note": "patch no longer applies to /repo HEAD (code changed by a later fix commit)"}
        print(f"{name}: patch does not apply any more")
    else:
        sh(f"git apply {d}/patch.diff", cwd=wt)
        props = list(meta.get("checks", {}).keys()) if isinstance(meta.get("checks"), dict) else []
        props = [p for p in props if p.startswith("C")] or [prop]
        if prop not in props:
            props.insert(0, prop)
        res = {}
        for p in props:
            rcc, outc = sh(f"./check {p} --no-evidence", cwd="/verif", env=dict(os.environ, VERIF_REPO=wt))
            lines = [l.strip()[:220] for l in outc.splitlines() if l.strip().startswith("src/")][:3]
            res[p] = {"exit": rcc, "reports": lines}
        sh("git checkout -q -- .", cwd=wt)
        meta["checks"] = res
        ok = res[prop]["exit"] == 1
        rule = (res[prop]["reports"][0].split("]")[0].split("[")[-1] if res[prop]["reports"] else "-")
        print(f"{name}: {'detected' if ok else 'NOT DETECTED'} exit={res[prop]['exit']} rule={rule}")
        if not ok:
            missed.append(name)
    json.dump(meta, open(f"{d}/meta.json", "w"), indent=1)
print("missed:", missed)
sys.exit(1 if missed else 0)
