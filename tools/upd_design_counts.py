#!/usr/bin/env python3
"""Refresh the obligations column of DESIGN.md section 0 from evidence/<id>.json (quick tier)."""
import json, os, re
HERE = os.path.dirname(os.path.dirname(os.path.abspath(__file__)))
p = os.path.join(HERE, "DESIGN.md")
s = open(p).read()
for i in range(1, 21):
    pid = f"C{i:02d}"
    e = json.load(open(os.path.join(HERE, "evidence", pid + ".json")))
    if e.get("tier") != "quick":
        continue
    n = e["coverage"]["obligations"]
    s, k = re.subn(rf"^(\| {pid} \| [^|]*\| )(\d+)", lambda m: m.group(1) + str(n), s, count=1, flags=re.M)
    assert k == 1, pid
open(p, "w").write(s)
print("updated")
