#!/usr/bin/env python3
"""Write the sub-agent prompts of a seeding round to /tmp/wt/prompt_<id>.txt (and the property text to /tmp/wt/prop_<id>.json).

usage: tools/mk_seed_prompts.py <round-name> [ids...]    e.g. tools/mk_seed_prompts.py FOURTH C01 C02
The prompt contains only the property text and the titles / locations of the changes of earlier rounds (never anything about /verif).
"""
import glob
import json
import os
import re
import sys

HERE = os.path.dirname(os.path.dirname(os.path.abspath(__file__)))


def earlier(pid):
    out = []
    for d in sorted(glob.glob(os.path.join(HERE, "seeded", pid + "-*"))):
        notes = os.path.join(d, "notes.md")
        title = open(notes).readline().strip().lstrip("# ").strip() if os.path.exists(notes) else os.path.basename(d)
        files, ctx = [], []
        for line in open(os.path.join(d, "patch.diff")):
            if line.startswith("+++ b/"):
                files.append(line[6:].strip())
            m = re.match(r"@@ .* @@ (.*)", line)
            if m and m.group(1).strip():
                ctx.append(m.group(1).strip()[:60])
        out.append(f"   - {title[:230]}  [{', '.join(files)}; {'; '.join(dict.fromkeys(ctx))}]")
    return out


def main():
    rnd = sys.argv[1]
    ids = sys.argv[2:] or [f"C{i:02d}" for i in range(1, 21)]
    props = {json.loads(l)["id"]: json.loads(l) for l in open(os.path.join(HERE, "properties.jsonl"))}
    os.makedirs("/tmp/wt", exist_ok=True)
    for pid in ids:
        p = props[pid]
        with open(f"/tmp/wt/prop_{pid}.json", "w") as f:
            json.dump({k: p[k] for k in ("id", "title", "statement", "quantifier", "why_tests_cant", "anchors")}, f, indent=1)
        wt = f"/tmp/wt/{pid}"
        prev = "\n".join(earlier(pid))
        text = f"""You are helping to evaluate a verification tool by producing realistic *seeded defects* for a Python library.

Your scratch git worktree of the library (BioMedIA/deepali, a PyTorch image-registration library) is at {wt} . Work ONLY inside {wt} (never touch /repo or /verif, and do not read anything under /verif). The property you must break is described in the JSON file /tmp/wt/prop_{pid}.json (read it first: fields statement, quantifier, why_tests_cant, anchors).

Task: produce TWO independent source changes (each a small, realistic-looking edit to files under {wt}/src/deepali — the kind of slip a maintainer could make in a refactor) such that, for each change taken alone:
 1. the library still imports and the existing test suite still passes entirely:  cd {wt} && PYTHONPATH={wt}/src /venv/bin/python -m pytest -q -p no:cacheprovider   (88 tests pass on the unchanged tree; takes ~20-300 s);
 2. the property in prop_{pid}.json is violated — but only in a way that needs something specific to manifest (a particular class / option / dimension / convention / shape / dtype / sequence of operations, or two cooperating sites that each look fine alone), NOT something that ordinary default use would expose at once;
 3. you have a small demonstration program (plain python script using the library, exit code 1 + message when the property is violated, exit 0 otherwise) that FAILS with the change applied and PASSES on the unchanged tree. Run it as: cd {wt} && PYTHONPATH={wt}/src /venv/bin/python <script>. Call torch.set_num_threads(1) at the top of the demo (the machine is shared and heavily loaded).

This is the {rnd} round. The following changes were already produced in earlier rounds — yours must be different in kind AND location (a different function, a different clause of the property). Think about what a checker that already catches all of these would still overlook: clauses of the property statement that none of the earlier changes touches, helper functions several calls deep, documented alternative input forms and argument spellings, values at boundaries (0, 1, empty, singleton axes, None vs explicit default, negative), interactions between two options, objects produced by *other* operations of the library (derived grids, copies, views, inverses, conditioned or re-gridded transforms), state carried across calls, dtype / device / precision, error handling that silently falls back, re-ordered but individually plausible statements, semantic changes that keep every shape and type intact:
{prev}

Do NOT use `git stash` (the stash is shared between worktrees of the same repository and other agents are working in parallel); to save a change use `git diff > file` and `git checkout -- .`.

Prefer changes in the files named in the property's anchors (or in helpers those files call). The two changes should be different in kind and location from each other. Keep each change minimal (1-5 lines).

Deliverables — create directory {wt}/_seed/ containing:
  a/patch.diff  (output of `git diff` for change A alone, relative to the worktree root, applicable with `git apply`)
  a/demo.py     (demonstration for change A)
  a/notes.md    (first line: a one-line title of the change; then which clause of the property it breaks, what is needed to manifest it, what you ran and the observed outputs: test summary line with the change, demo output with and without the change)
  b/patch.diff, b/demo.py, b/notes.md  (same for change B)
Leave the worktree's tracked files UNCHANGED at the end (git checkout -- . after saving each patch), so that both patches apply to the pristine tree. Verify each patch applies cleanly to the pristine tree with `git apply --check`.

Report back briefly: for each change one paragraph (file/function edited, what breaks, what is needed to see it), plus confirmation of the test and demo results.
"""
        with open(f"/tmp/wt/prompt_{pid}.txt", "w") as f:
            f.write(text)
    print("wrote", len(ids), "prompts")


if __name__ == "__main__":
    main()
