#!/venv/bin/python
"""Development audit: public functions / methods of each property's anchor files that no obligation of that property's check executes
(E5 interpreter) — candidates for a missing obligation. Sequential runs (VERIF_JOBS=1) so that forked workers do not hide executions.

usage: tools/coverage_audit.py [ids...]   (writes nothing under /verif; prints the list)
"""
import ast, json, os, subprocess, sys, tempfile
HERE = os.path.dirname(os.path.dirname(os.path.abspath(__file__)))
props = {json.loads(l)["id"]: json.loads(l) for l in open(os.path.join(HERE, "properties.jsonl"))}
ids = sys.argv[1:] or sorted(props)
repo = os.environ.get("VERIF_REPO", "/repo")
for pid in ids:
    with tempfile.NamedTemporaryFile(suffix=".json") as tf:
        env = dict(os.environ, VERIF_COVERAGE=tf.name, VERIF_JOBS="1")
        subprocess.run([os.path.join(HERE, "check"), pid, "--no-evidence"], env=env, stdout=subprocess.DEVNULL, stderr=subprocess.DEVNULL)
        try:
            executed = set(json.load(open(tf.name)))
        except Exception:
            executed = set()
    missing = []
    for f in props[pid]["anchors"]["files"]:
        path = os.path.join(repo, f)
        mod = f[len("src/"):-3].replace("/", ".")
        if mod.endswith(".__init__"):
            mod = mod[:-9]
        tree = ast.parse(open(path).read())
        for node in tree.body:
            if isinstance(node, ast.FunctionDef) and not node.name.startswith("_"):
                if f"{mod}:{node.name}" not in executed:
                    missing.append(node.name)
            elif isinstance(node, ast.ClassDef):
                for m in node.body:
                    if isinstance(m, ast.FunctionDef) and (not m.name.startswith("_") or m.name in ("__getitem__", "__iter__", "__call__")):
                        if any(isinstance(d, ast.Name) and d.id == "overload" for d in m.decorator_list):
                            continue
                        if f"{mod}:{node.name}.{m.name}" not in executed:
                            missing.append(f"{node.name}.{m.name}")
    print(f"{pid}: executed {len(executed)} repo functions; not executed in anchor files ({len(missing)}): {', '.join(missing)}")
