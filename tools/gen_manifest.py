#!/venv/bin/python
"""Generate /verif/MANIFEST.json from the table below (keeps the manifest valid at all times)."""
import json
import os
import sys

HERE = os.path.dirname(os.path.dirname(os.path.abspath(__file__)))

TRUST = ("Trusted base: CPython ast; the call/type resolver in sa/index.py + sa/types.py; the torch API model in sa/symt.py / "
         "sa/torch_model.py; reference formulas in the adaptors (each cited in DESIGN.md). No deepali code is imported or run. "
         "Exact rational arithmetic: IEEE rounding, torch kernels and third-party libraries are not modelled.")

# id -> (built?, engine, technique, level text, design_ref)
CHECKS = {
    "C01": (True, "E5(T1)+E4",
            "abstract interpretation of the coordinate-map tables over a polynomial-ring normal form; certain-crash lint",
            "Decides, for D in {2,3} and both align_corners settings, as identities between rational functions in symbolic size, "
            "spacing, center and rotation: all 16 axes pairs yield a map; B->A o A->B = id; A->C = B->C o A->B; the documented anchors; "
            "vectors = linear part; the closed-form transform_vectors paths, apply_transform and the *_to_* helpers equal the matrix map; "
            "two-grid maps compose through WORLD in the right order; coords()/points() lattices equal the map of the integer indices "
            "(concrete n <= 6 end-to-end; symbolic n for the arange arguments); Cube maps. Does not decide: float rounding (6/12 "
            "decimals), float32 arange count up to n=4096, 'sampling at coords() returns the image' (torch kernel).",
            "DESIGN.md 4/C01"),
    "C02": (True, "E5(T1)+E7",
            "abstract interpretation of Grid construction/maps over a polynomial-ring normal form vs the documented ITK formula; header wiring rule",
            "Decides, for D in {2,3}: GRID->WORLD is exactly p = o + R diag(s) i with o = c - R diag(s)(n-1)/2 and WORLD->GRID its inverse; "
            "origin()/origin_() are inverse re-parameterisations of the stored center; both construction routes (origin=, center=) agree; "
            "Grid.from_sitk/from_reader evaluated on a symbolic header reproduce ITK's index-to-physical formula (row-major direction) and "
            "return the header's origin/spacing/direction/size; header fields are wired name-to-name in Grid.from_*, Image.sitk and "
            "image_from_tensor (no transpose, no center/origin mix-up). Does not decide: SimpleITK's own implementation, float32 vs float64.",
            "DESIGN.md 4/C02"),
    "C03": (True, "E5(T9)",
            "abstract interpretation of the grid derivation methods over a polynomial-ring normal form against the operations' index relations",
            "Decides, with symbolic spacing/center/rotation and enumerated sizes/arguments (plus symbolic sizes for the crop/pad family): "
            "crop/pad/narrow/center_crop/center_pad/region_of_interest/pool keep spacing, orientation and the world position of every retained "
            "sample (T_g'[index->world] = T_g[index->world] o index-shift) with the right size; resize/reshape/downsample/upsample/pyramid/"
            "resample keep center and orientation and corner positions (align_corners) or extent; downsample∘upsample returns the original "
            "grid; all pyramid levels share the cube extent; internal allclose assertions hold as exact identities. Does not decide: "
            "assertion failures caused by floating-point rounding; arguments outside the enumerated set.",
            "DESIGN.md 4/C03"),
    "C04": (True, "E5(T13)+E7+E4",
            "abstract interpretation of the ImageBatch/Image spatial methods (tensor function + Grid method + re-wrap) over a polynomial-ring "
            "domain with symbolic voxels and per-image symbolic grids; pair/delegate forwarding rules; certain-crash lint",
            "Decides for a batch of 2 images with distinct oriented grids (D in {2,3}, both align_corners defaults), for enumerated arguments: "
            "crop/pad/center_crop/center_pad/region_of_interest/narrow return one grid per image whose size is the data shape, and every output "
            "voxel holds exactly the input voxel that lies at the same world position according to the two grids (pad value outside); avg_pool "
            "keeps a world-linear ramp; resize/downsample/upsample hand torch the align_corners flag under which the grid was derived; "
            "sample(grid|grids) hands torch.grid_sample, per image, the target coordinates mapped target-cube -> world -> own-source-cube. "
            "Plus: order-free options are forwarded identically to tensor and grid paths; Image/FlowField delegates forward every parameter. "
            "Does not decide: interpolated values (torch kernels), arbitrary compositions of operations.",
            "DESIGN.md 4/C04"),
    "C08": (True, "E5(T2,T6,T7)+E4",
            "abstract interpretation of the rotation / homogeneous-transform tables over a polynomial ring modulo sin^2+cos^2=1 and unit-norm relations",
            "Decides as polynomial identities: euler_rotation_matrix equals the product of elementary rotations for all 12 orders in letter, "
            "lower-case and 'Rz o Rx o Rz' notation (closed forms and generic branch, homogeneous or not), is a proper rotation; "
            "euler_rotation_angles recovers angle i from R (atan2/acos arguments); homogeneous_matmul/hmm for all 9 operand-form pairs x batch "
            "shapes (none, 1, N) equals apply-one-after-the-other; as_homogeneous_matrix/homogeneous_matrix keep the map (and copy); "
            "homogeneous_transform applies A p + t and drops exactly t for vectors; quaternion <-> matrix tables ((w,x,y,z), all four branches). "
            "Does not decide: atan2/acos branch cuts, angle-axis conversions (half-angle trigonometry), float accuracy.",
            "DESIGN.md 4/C08"),
    "C11": (True, "E5(T11x)",
            "abstract interpretation of expv / warp_image / grid_sample / ExpFlow with torch.grid_sample left uninterpreted and every call recorded",
            "Decides (D in {2,3}, both conventions, steps in {0,1,3}, several scales, inverse flag): exactly `steps` sampling calls; call k samples "
            "the running field d_k at identity_coords(convention) + d_k with torch's align_corners equal to the given flag and border padding; "
            "d_0 = v (+/-scale)/2^steps; d_{k+1} = d_k + sample_k; steps=0 returns the scaled input; inverse == negated scale; ExpFlow forwards "
            "scale/steps/align_corners and negates exactly once for forward(inverse=True), inverse(), inv (on a copy). Does not decide: equality "
            "with (I+H/2^k)^(2^k), convergence, interpolation error (torch kernel).",
            "DESIGN.md 4/C11"),
    "C16": (True, "E5(T16)+E7+E4",
            "abstract interpretation of the loss functions over a polynomial-ring domain with symbolic voxels/masks; wrapper-forwarding rules; crash lint",
            "Decides for mse/ssd/mae/l1/huber/smooth_l1 (symbolic inputs, masks of all documented broadcast shapes with 0, 1 and symbolic weights): "
            "'sum'/'mean' are the sum/mean of 'none'; masked mean = sum(none*mask)/sum(expanded mask); identical inputs give 0; norm divides; "
            "symmetry. For Dice/Tversky (idempotent binary atoms): score 1 / loss 0 on identical inputs for every reduction, reductions, "
            "loss = 1 - score, Dice symmetry, Tversky(1/2,1/2) = Dice, alpha<->FP / beta<->FN roles and defaults, weight shapes. Module wrappers "
            "forward every stored option. Does not decide: ncc/lcc/mi invariances, ranges, histogram behaviour.",
            "DESIGN.md 4/C16"),
    "C17": (True, "E5(T17,T10)+E7+E4",
            "abstract interpretation of the regulariser functionals, the elastic-constant table and the inverse-consistency loss over a "
            "polynomial-ring domain; wrapper-forwarding rules; crash lint",
            "Decides for D in {2,3} on fields with symbolic polynomial coefficients and symbolic anisotropic spacing: analytic values of "
            "bending (mixed weight 2), curvature (1/2 Laplacian^2), diffusion, divergence, grad(p,q), total variation and elasticity "
            "(lambda/2 div^2 + mu/4 sum (d_j u_k + d_k u_j)^2); null spaces (affine / translation / linear transforms), quadratic scaling, "
            "reductions, default spacing 2/(n-1) in (x,...) order; all supported elastic-constant pairs give the defining (lambda, mu); "
            "inverse-consistency error of translations in cube / voxel / world units for both conventions, exact inverse gives 0, margin "
            "cropping; module wrappers forward every option. Does not decide: B-spline bending vs analytic energy beyond the derivative "
            "tables (C12/C14), masks of inverse consistency, float accuracy.",
            "DESIGN.md 4/C17"),
    "C09": (True, "E5(T6x)+module model",
            "bounded exploration of operation histories by abstract interpretation of the real transform classes (nn.Module semantics modelled) "
            "with a freshly-recomputed twin as oracle",
            "Decides for DisplacementField / StationaryVelocityField / FreeFormDeformation / SVFFD with parameters held as Parameter, buffer, "
            "plain tensor or callable: for every history up to length 2 (quick) / 3 (thorough) over {data_, in-place edit, grid_, condition_, "
            "reset_parameters, update, call, disp, clear_buffers} starting from populated buffers, calling the transform equals a twin recomputed "
            "from the current parameters/grid/conditioning, and tensor()/disp() right after a replacing/resetting operation are fresh; grid "
            "refinement of spline models preserves the spline at coincident samples; re-gridding dense models re-expresses the vectors in the new "
            "grid's units/convention. Symbolic parameter values; torch.grid_sample uninterpreted (content-keyed). Does not decide: longer "
            "histories, link/unlink histories (known sharing findings are owned by C15/C07), numeric accuracy of the recomputed buffers.",
            "DESIGN.md 4/C09"),
    "C14": (True, "E5(T3)+E4",
            "abstract interpretation of the B-spline tables/evaluation/subdivision over exact rationals and a symbolic offset; conv/conv_transpose modelled",
            "Decides: cubic_bspline_interpolation_weights equals the analytic basis and its formal derivatives as polynomials in the offset "
            "(orders 0-3, zero above), partition of unity, linear precision; cubic_bspline_value/cubic_bspline1d equal the centred B-spline; "
            "evaluate_cubic_bspline (D=1,2,3, mixed strides, derivative orders, cropped shapes) equals the tensor-product reference on symbolic "
            "coefficients and the transposed-convolution algorithm agrees; linear coefficient fields are reproduced; control-grid size covers "
            "the image for sizes 1..20 x strides 1..6 and the control-point grid is placed one spacing before the origin; subdivision obeys the "
            "two-scale relation and keeps the function; refining an FFD's grid keeps the spline at coincident samples. Does not decide: sizes/"
            "strides beyond those enumerated, float accuracy.",
            "DESIGN.md 4/C14"),
    "C15": (True, "E1+E5(T15)",
            "may-alias / in-place effect analysis (flow-sensitive, summaries over resolved callees) for the functional APIs and value-class "
            "accessors; copy-isolation by abstract execution of deep copies and accessor copies (state snapshot before/after)",
            "Decides: for all functions exported by core.functional (>100) and losses.functional (34), with in-place flags at their defaults, no "
            "in-place tensor operation can reach a value that may alias a tensor parameter on any path / through any resolved callee (views, "
            "no-op conversions and helper summaries tracked; 7 frozen, structurally re-validated exceptions); Grid/Cube/Image(Batch)/FlowField(s) "
            "public accessors have no effect on the receiver and underscore setters only rebind; deep copies share no storage/grids and are "
            "independent in both directions; accessor copies of data tensors and of transforms (data/grid/condition/inverse/link/unlink, "
            "Parameter/buffer/callable parameters) leave the original's state snapshot unchanged — with 4 KNOWN findings rooted in the shared "
            "_parameters dict of SpatialTransform.__copy__. Does not decide: aliasing created inside torch, requires_grad side effects, user callables.",
            "DESIGN.md 4/C15"),
    "C19": (True, "E5(T19)",
            "abstract interpretation of the classes' own __torch_function__ / __getitem__ / __iter__ / copy code over a list of torch programs, "
            "with voxel symbols that name the batch item they belong to",
            "Decides for ImageBatch and FlowFields batches of 3 items with distinct grids: for 31 torch operations (elementwise, reductions, "
            "narrow/select, cat/split/tensor_split/chunk/unbind, flip/roll/index_select, repeat/expand/reshape/transpose/permute, padding, "
            "pooling, casts, clone) and 13 indexing forms plus iteration, a result of image type carries one grid per entry, grid shape = data "
            "shape, and entry i carries the grid (and axes) of the item whose voxels it holds; otherwise it is a plain tensor; copy/deepcopy "
            "of all four types preserve type, data, grids and axes. 6 KNOWN findings: batch-reordering ops keep the input grid order. Does not "
            "decide: the open-ended space of all torch functions, pickling (storage protocol).",
            "DESIGN.md 4/C19"),
    "C12": (True, "E5(T5)",
            "abstract interpretation of the finite-difference / B-spline derivative code and of the Jacobian, divergence, curl and Lie-bracket "
            "assembly over a polynomial-ring domain, on fields with symbolic polynomial coefficients and symbolic anisotropic spacing",
            "Decides for D in {2,3}: every finite-difference mode (forward, backward, central, forward_central_backward, prewitt, sobel) returns "
            "A_cj for affine fields at interior samples with per-axis and per-batch spacing; stencil offsets/steps/dilation on symbolic "
            "samples; second derivatives of quadratic fields (interior) and mixed-derivative symmetry; key subsets equal the full request; "
            "jacobian_matrix / jacobian_det (with/without identity) / divergence / curl / lie_bracket equal their analytic values on affine "
            "fields, including in-place arithmetic on the derivative dictionary (storage-faithful model); B-spline mode returns slope/spacing, "
            "2q/h^2 and q_jk/(h_j h_k) per axis for strides 1, 2. Does not decide: gaussian mode (exp kernels), float accuracy, sizes beyond "
            "the small grids used.",
            "DESIGN.md 4/C12"),
    "C13": (True, "E5(T4)",
            "abstract interpretation of compose_svfs with a formal Lie bracket (coefficient extraction), of compose_flows and logv with "
            "torch.grid_sample recorded",
            "Decides: compose_svfs(u, v, bch_terms=k) is exactly the BCH series truncated after k bracket terms for k = 0..5 (coefficients, "
            "signs, bracket nesting and operand order) and forwards mode/sigma/spacing/stride to every bracket; commuting fields give u + v "
            "for every k; compose_flows(u, v, a) = u + sample(v at identity(a) + u) with torch flag a and border padding, zero field is a "
            "two-sided identity; logv hands its align_corners to every sampling call it reaches. Bilinearity/antisymmetry of the Lie "
            "bracket template is decided under C12. Does not decide: approximation quality/bounds, exactness for invariant affine pairs "
            "(interpolation kernel).",
            "DESIGN.md 4/C13"),
    "C10": (True, "E5(T10x)+E4",
            "abstract interpretation of FlowFields.axes/exp/warp_image/sample/curl and the normalize/denormalize family over a polynomial-ring "
            "domain with per-item symbolic oriented grids; torch.grid_sample and expv recorded",
            "Decides for D in {2,3}, all 4 axes and batches with distinct grids: axes(b) multiplies item i's vectors by the linear part of its "
            "own grid's map a -> b (round trip = id, transitivity, label, grids kept); exp() hands expv the vectors in the cube convention "
            "matching the align_corners it passes and converts back; warp_image() samples at the item grid's identity coordinates plus the "
            "cube-converted vectors with the matching flag; sample(grid) re-expresses non-world vectors between the old and new grids; "
            "normalize_flow/denormalize_flow/normalize_grid/denormalize_grid are inverse and scale component j by 2/(n_j-1) resp. 2/n_j for "
            "channels first/last. Does not decide: interpolated values, curl of non-world axes beyond the conversion, float accuracy.",
            "DESIGN.md 4/C10"),
    "C06": (True, "E5(T12,T67)+module model",
            "abstract interpretation of the real transform classes (nn.Module semantics modelled) with symbolic parameters on grids with "
            "symbolic geometry, compared as rational-function / trigonometric-ring identities",
            "Decides for D in {2,3}: every linear model and predefined composite (Parameter and buffer parameters) and every non-rigid model is "
            "the identity after construction; for symbolic parameters calling a linear model equals its tensor()/matrix() applied, disp() on "
            "its own grid is A x + b - x at the cube coordinates, points(axes=WORLD) = T[cube->world] o (A,b) o T[world->cube] on an oriented "
            "symbolic grid, points(grid=g2, axes=GRID, to_axes=WORLD) routes through both grids' maps; SequentialTransform.tensor()/call apply "
            "members in listed order, predefined composites list scaling/shearing < rotation < translation, composite disp() = forward(coords) - "
            "coords; MultiLevelTransform adds member displacements. Does not decide: image warping values (torch.grid_sample kernel; the "
            "coordinate wiring of the transformer modules is part of C05), non-rigid disp on a different grid (interpolation), "
            "GenericSpatialTransform configurations, groups=N.",
            "DESIGN.md 4/C06"),
    "C07": (True, "E5(T67)+module model",
            "abstract interpretation of inverse()/inv/link_/__copy__ of the real transform classes (nn.Module semantics modelled, shared "
            "parameter containers) over symbolic parameters; expv recorded for velocity models",
            "Decides for every invertible linear model and predefined composite (D in {2,3}; Parameter incl. tanh squashing, buffer, callable), "
            "for inverse(link, update_buffers) in all four modes and .inv: inverse matrix o matrix = identity in both orders as a "
            "polynomial/trigonometric identity and inverse(t(x)) = x; the transform is unchanged; inverse().inverse() is the transform; after "
            "a later parameter change (data_(new), in-place write of the shared tensor, or new conditioning input of a linked callable) and "
            "update(), the inverse taken before still inverts. For SVF/SVFFD: the inverse exponentiates the same (current) velocity field with "
            "the negated scale and same steps/convention, update_buffers=True refreshes the displacement, double inverse restores. Does not "
            "decide: the second-order accuracy of scaling-and-squaring inverses (numerical), GenericSpatialTransform.inverse.",
            "DESIGN.md 4/C07"),
    "C05": (True, "E5(T5x)",
            "abstract interpretation of ImageBatch/Image.sample, core grid_sample/sample_image and the SampleImage/TransformImage/AlignImage "
            "modules on oriented grids with symbolic geometry, torch.grid_sample recorded; compared with the ITK identity-resampler index formula",
            "Decides for D in {2,3}, every combination of source/target align_corners, shared and per-image grids: the normalised coordinates "
            "and the align_corners flag handed to torch.grid_sample read target sample j at the continuous source index W_src^-1(W_tgt(j)), "
            "W(i) = o + R diag(s) i, under torch's documented unnormalisation (i.e. what ITK's resampler with the identity transform reads); "
            "the module API's precomputed matrix does the same for axes in {cube, WORLD, GRID}, with a linear transform given in those "
            "axes, and with align_centers; linear/nearest and zeros/border/constant reach torch unchanged in meaning and constant padding "
            "is exactly c + sample(data - c); sampling on an equal grid returns the image; sampling at explicit coordinates / point lists "
            "equals sampling on the grid. Does not decide: interpolated values themselves (torch kernel vs ITK interpolators), float "
            "rounding of coordinates, behaviour at the outermost half voxel (padding conventions differ between torch and ITK).",
            "DESIGN.md 4/C05"),
    "C18": (True, "E5(T18)+format models",
            "abstract interpretation of deepali's reader/writer code (write_image/read_image dispatch, native MetaImage codec, nibabel and "
            "SimpleITK routes, Image/FlowField/Grid entry points) against specification models of numpy, io/zlib, SimpleITK, nibabel and "
            "the MetaIO / ITK-NIfTI header conventions; symbolic voxels and symbolic oriented grids",
            "Decides for formats {.mha native, .nii/.nii.gz via nibabel, .nrrd/.mhd via SimpleITK}, D in {2,3}, 1-3 channels, dtypes "
            "{uint8,int16,int32,float32,float64} (quick: a covering subset), compress on/off: write then read returns the same voxel "
            "values, channel count, data type and grid (size, origin, spacing, direction) as symbolic identities; a library-written .mha "
            "parsed by the MetaIO tag reference (ElementType table, DimSize order, TransformMatrix = direction cosines per axis, channel "
            "interleaving, CompressedDataSize) and a library-written NIfTI read by ITK's conventions give the same image, and reference-"
            "written files are read identically; Image.write/read/sitk/from_sitk, Grid.from_file, FlowField.write/read/sitk/from_sitk "
            "store world vectors and return to the original axes. 13 KNOWN findings (2-D and multi-channel NIfTI). Does not decide: the "
            "third-party libraries' own behaviour beyond the documented contracts modelled in sa/iomodel.py, byte order, remote storage, "
            "float32 precision of NIfTI sform.",
            "DESIGN.md 4/C18"),
    "C20": (True, "E8",
            "interprocedural gradient-flow (taint) analysis: flow-sensitive walk of every differentiable entry point with summaries over "
            "resolved callees specialised on constant arguments, per-class table of buffers recomputed from parameters, global fixpoint",
            "Decides the structural necessary condition of the property for ~350 entry points (every public function of core.flow / "
            "bspline / affine / _kornia / linalg / pointset / losses.functional and the sampling, derivative and filtering functions of "
            "core.image; forward/tensor/disp/points/update/... of every transformation, transformer, sampler and loss module; Grid's "
            "coordinate API with rounding off; FlowFields/ImageBatch resampling) and ~500 (entry, differentiable input) pairs: no value "
            "path from a tensor argument or from a transformation's own state to the result passes a gradient blocker (detach, .data, "
            "item/tolist/numpy, float()/int() of a tensor, torch.no_grad, requires_grad off, rounding to decimals), through any depth of "
            "resolved repo callees and through buffers written by update(). 8 KNOWN findings (mi_loss histogram range). Does NOT decide "
            "the behaviour itself: numerical agreement of autograd with finite differences, finiteness of gradients, kinks, or blockers "
            "inside torch; piecewise-constant operations (round to integer, floor, argmax, comparisons) are by definition not findings.",
            "DESIGN.md 4/C20"),
}

NOT_BUILT_REASON = "static check for this property is designed (DESIGN.md section 4) but not yet built in this revision"


# additions of round 3 (appended to the level text of the property)
EXTRA = {
    "C01": " Also decided: the same tables on grids with a non-integral internal size (a pyramid level of an odd-sized grid) and with "
           "singleton axes; apply_transform / transform_vectors towards an unrelated and a same-cube second grid; hmm / homogeneous_transform "
           "for every operand form.",
    "C02": " Also decided: Grid.from_seq / from_numpy with either meaning of the third block; the SimpleITK-side helper GridAttrs "
           "(index<->physical for float and integer indices, matrices, lattice, corners, center route) under a numpy specification model.",
    "C03": " Also: center_crop / center_pad requests that exceed / fall below the grid size on some axes.",
    "C04": " Also: the same index-only operations on images whose grids carry a non-integral internal size; clamped center_crop/center_pad; "
           "FlowFields.sample re-expresses vectors for every representation.",
    "C05": " Also: target grids covering the same cube as the source with another size and either flag; explicit CUBE / CUBE_CORNERS axes for the "
           "modules against an adaptor-computed lattice.",
    "C06": " Also: ImageTransformer with only the target grid given.",
    "C07": " Also: taking an inverse leaves the original's buffered displacement unchanged.",
    "C08": " Also: frozen Parameters (requires_grad_(False)) keep the squashed representation; freezing changes no getter / matrix.",
    "C10": " Also: all conversions and FlowFields.sample on fractional-size grids against a reference written out from the documented conventions.",
    "C11": " Also: dtype flow (no float32 intermediate in a float64 computation, positions and field handed to torch in the field's dtype); "
           "inverse clause at the SVF transforms' buffers.",
    "C12": " Also: per-image spacing rows that are neither equal nor in ascending batch order.",
    "C13": " Also: the expv recurrence for every steps / scale / inverse combination (logv iterates on it).",
    "C14": " Also: mode='bspline' derivatives of order 1 and 2 under anisotropic per-image spacing and strides.",
    "C15": " Also: inverse(update_buffers / link) and .inv as accessors; cross-cutting rule E1.module-state (no function modifies a module-level "
           "container in place).",
    "C16": " Also: every documented (input, target) form of the Tversky index equals the canonical one; NormalizedPairwiseImageLoss constructor "
           "configurations (which factor divides the loss).",
    "C17": " Also: 'mean'/'sum' vs 'none' for every regulariser and (p, q) option set; per-image spacing; spline derivative mode.",
    "C18": " Also: grids with singleton spatial axes; E1.module-state (header parsing does not depend on earlier reads).",
    "C19": " Also: the pickle reduce/rebuild pair on a copied storage (whole tensors, items, slices, strided views); collate_samples for all four "
           "field types with several items per sample.",
    "C20": " Also (structural): E8.saved-inplace — no in-place operation on a tensor that autograd saved as an operation's output; "
           "E8.hook-receiver — forward hooks are not bound to one instance; E8.guard-placement.",
}

EXTRA2 = {
    'C01': ' Rounds 4-5: Grid.cube()/domain()/Cube.from_grid extents on fractional-size grids; same_domain_as of two same-cube grids.',
    'C02': ' Rounds 4-5: nearest-index points with negative fractional continuous indices; sample 0 of crop/pad/ROI/pool grids (shared T9.crop-family).',
    'C03': ' Rounds 4-5: chains of operations after a downsample (sizes derived from a non-integral internal size).',
    'C04': ' Rounds 4-5: T13.resample (returned grids and sampled positions for dividing and non-dividing factors); T13.conv (per-axis kernel sizes, margins and crop).',
    'C05': ' Rounds 4-5: a translation given as (1, D, 1); the same module called again without a transform behaves as on its first call.',
    'C06': " Rounds 4-5: functional setters data(p)/grid(g) (T67.derived-views); disp on a grid that differs in the flag only; EulerRotation's defining matrix (shared T2.euler-matrix).", 'C07': " Rounds 4-5: re-gridding the inverse keeps the negated scale; QuaternionRotation's matrix is a rotation for non-unit parameters (shared T7.quat-to-matrix).", 'C08': ' Rounds 4-5: quaternion log/exp on unit quaternions with rational components (T7.quat-log-exp); angle-axis to matrix: sense of rotation, fixed axis, tiny-angle branch (T7.angle-axis).',
    'C09': ' Rounds 4-5: operations keyword conditioning, conditioning a copy, a step of the predicting network, data(p)/grid(g) copies, link_/unlink_; resize=False configurations; flag-only re-gridding; T6x.unlink-slot (1 recorded finding); inverse-velocity rule shared with C07.',
    'C10': " Rounds 4-5: default axes of FlowField(s) follow the grid's flag on every construction path (T10x.default-axes).", 'C11': ' Rounds 4-5: the transforms hand steps/scale to the recurrence (T11x.svf-steps); re-gridding an SVF keeps the convention of its exponential map (shared T6x.regrid).',
    'C12': ' Rounds 4-5: per-axis strides and both key spellings of the spline mode; per-axis spacing vector when N = D; which spacing a Gaussian derivative is divided by (T5.gaussian-spacing); no float32 intermediate under float64 input in any of 8 modes (T5.dtype); FlowFields.curl.',
    'C13': ' Rounds 4-5: two explicit logv iterations on the given flow with the input unchanged (T4.logv-iteration); T5.dtype and T5.gaussian-spacing shared (the Lie bracket is built from Jacobians).',
    'C14': ' Rounds 4-5: subdivide for every spelling of dims; transposed evaluation with explicitly supplied kernels of derivative orders 0-2; update histories of the spline models.',
    'C15': " Rounds 4-5: every spatial operation of ImageBatch / Image / FlowFields with options differing from the receiver's; accessors of composite transforms (2 recorded findings).", 'C16': ' Rounds 4-5: batches are scored per pair; mi/nmi are symmetric in their arguments (T16.mi-symmetry, Parzen windows as function atoms, concrete rational pairs).',
    'C17': ' Rounds 4-5: options derived in constructors over {None, 0, 1, 2, 1/2} (T17.module-values); boundary Lame parameters lambda = 0 / mu = 0.',
    'C18': ' Rounds 4-5: to_uri/from_uri; channel-less data; every SimpleITK integer pixel type reaches torch without wrapping (T18.sitk-types).',
    'C19': ' Rounds 4-5: grids equal up to align_corners under deepcopy; tuple/keyword/out= forms of cat-like functions; a result with D components stays a flow field.',
    'C20': ' Rounds 4-5: E8.buffer-graph (every attribute written on the evaluation path from the learnable state stays connected); T20.generic-leaf (components of a network-driven GenericSpatialTransform hold the predicted tensors themselves: no new leaf, no detach/.data); T5.dtype (no float32 intermediate under float64 inputs).'}


EXTRA3 = {
    'C03': ' Round 6: the resize family on derived grids (chains); Cube.grid() for either flag (T9.cube-grid).',
    'C06': ' Round 6: histories of the dense models with predicted parameters (every view serves the current prediction).',
    'C07': ' Round 6: the expv recurrence honours the sign of the scale for every number of steps (shared T11x.expv).',
    'C08': ' Round 6: quaternion <-> rotation vector conversions incl. half-turns (T7.quat-angle-axis); integer-typed operands of hmm / homogeneous_matmul.',
    'C09': ' Round 6: functional condition(*args, **kwargs) (T6x.condition-copy); linear models linked with link_ (T6x.linked-linear); spline grid_() refuses grids of another domain.',
    'C12': ' Round 6: T5.gaussian-structure; integer-typed fields with fractional spacing; spacing as tuple / list.',
    'C13': ' Round 6: the Jacobian family (T5.jacobian) with spacing as tensor / tuple / list.',
    'C14': ' Round 6: the transposed evaluation refuses derivative requests it does not implement.',
    'C15': " Round 6: transformers' condition(); evaluating an inverse leaves the original alone (T15.copy-evaluation); tensor()/call/disp() write into no parameter tensor (T15.evaluation-pure).", 'C16': ' Round 6: T16.wlcc (symmetry with reused masks, repeatability, reductions, invariance, unit masks = lcc).',
    'C20': ' Round 6: E8.update-order (the predicted-parameter buffer is refreshed before any reader in every update()).'}


EXTRA4 = {
    'C03': ' Round 7: ROI boxes beyond either border.',
    'C06': ' Round 7: the point route of dense models beyond the outermost field samples (padding rule).',
    'C13': ' Round 7: batches of fields in compose_flows; the first-order derivative tables of every mode (shared T5.first-order).',
    'C14': ' Round 7: n-D kernel front ends for every stride form (T3.kernels); float64 weight tables (T3.dtype); FFD control grids with per-axis strides (T3.ffd-shape).',
    'C16': ' Round 7: the normalisation factor together with a mask; mask shapes with N != C.',
    'C01': ' Round 6: two-cube maps, cube_* / grid_* wrappers, Cube sequence forms (T1.cube-api).',
    'C08': ' Round 6: affine helper functions, Translation / HomogeneousTransform accessors, part getters of the composites (T6.helpers).',
    'C09': ' Round 6: DisplacementFieldTransform.fit for every flow representation (T6x.fit).'}


EXTRA5 = {
    'C02': ' Round 7: WORLD -> index of another grid (shared T1.two-grids).',
    'C04': ' Round 7: T13.pyramid (finest pyramid level read where its grid says); sampling twice with a scalar outside value leaves the batch unchanged.',
    'C10': ' Round 7: one-step conversions between two grids (shared T1.two-grids); files / SimpleITK images hold and are labelled as world vectors (shared T18.flow-api).',
    'C11': ' Round 7: FlowFields.exp / FlowField.exp convert to cube units and back (shared T10x.exp).',
    'C18': ' Round 7: tensors that are reversed-axes views are written in logical voxel order (T18.strided).',
    'C19': ' Round 7: operands given in different axes are refused (T19.mixed-axes).'}


EXTRA6 = {
    'C01': ' Round 8: the maps leave the points they are given unchanged (round_decimals interpreted) and round by the documented policy only (12 / 6 / none decimals towards cube / GRID / WORLD).',
    'C03': ' Round 8: pyramid(min_size, dims) size recurrence; no derivation rounds coordinates on the way to a world position (rounding events).',
    'C04': ' Round 8: narrow with a start counted from the end; resample with a spacing that keeps the number of samples; extent-preserving pyramid(spacing=); a single FlowField equals item 0 of its one-item batch (T10x.single-field).',
    'C06': ' Round 8: a warp with a scalar outside value applied twice to the same image.',
    'C07': ' Round 8: matrices re-read after one and two evaluations of the inverse; inv(t(x)), t(inv(x)) evaluated one after the other.',
    'C08': ' Round 8: the inverted EulerRotation for all twelve orders.',
    'C09': ' Round 8: T6x.linked-reset (reset through a linked transform leaves no stale buffered field).',
    'C10': ' Round 8: positions read when a field is resampled on a grid of the other convention (shared T13.sample); T10x.single-field.',
    'C12': ' Round 8: the Jacobian family on batches of different fields.',
    'C13': ' Round 8: T4.dtype (compose_flows works in the fields\' precision; widening-cast events).',
    'C14': ' Round 8: precomputed weight tables as kernel= (list, tuple, single tensor).',
    'C15': ' Round 8: shape-metadata in-place methods on an argument that may have passed through identity-preserving conversions (E1).',
    'C16': ' Round 8: T16.rand-sample (sampling weights per image are that image\'s mask; multinomial uninterpreted); T16.sample-mask (patch-wise mask is the indicator of mask > threshold for every dtype).',
    'C17': ' Round 8: T17.bspline-bending (every route to the B-spline bending energy equals the energy of the spline\'s second derivatives); T67.point-vs-grid shared (inverse leg of inverse consistency).',
    'C19': ' Round 8: reordering / repeating batch indices with a channel slice, boolean masks, narrow on the batch axis.',
    'C20': ' Round 8: E8.scratch-reuse (a scratch operand reused across loop iterations is overwritten after autograd saved it).'}


def main():
    sys.path.insert(0, HERE)
    props = [json.loads(l) for l in open(os.path.join(HERE, "properties.jsonl"))]
    checks = []
    na = []
    for p in props:
        pid = p["id"]
        ent = CHECKS.get(pid)
        if ent is None or not ent[0]:
            reason = NOT_BUILT_REASON if ent is None else ent[3]
            na.append({"property_id": pid, "reason": reason})
            continue
        _, engine, technique, text, ref = ent
        text = text + EXTRA.get(pid, "") + EXTRA2.get(pid, "") + EXTRA3.get(pid, "") + EXTRA4.get(pid, "") + EXTRA5.get(pid, "") + EXTRA6.get(pid, "")
        checks.append({
            "property_id": pid,
            "quick_cmd": f"./check {pid} --tier quick",
            "thorough_cmd": f"./check {pid} --tier thorough",
            "evidence_file": f"/verif/evidence/{pid}.json",
            "replay_cmd_template": f"./check {pid} --replay {{path}}",
            "engine": engine,
            "level_claimed": {"category": "other", "text": text, "design_ref": ref},
            "level_note": TRUST,
            "technique": "static analysis: " + technique,
        })
    man = {
        "version": 1,
        "setup_cmd": "true",
        "hooks": {
            "guard": "BIOMEDIA_DEEPALI_VERIF",
            "enable": "none needed: the checks never run deepali; they parse /repo/src/deepali on every run",
            "baseline_off_cmd": "cd /repo && /venv/bin/python -m pytest -ra -q -p no:cacheprovider --timeout=900 --continue-on-collection-errors",
            "source_commits": [],
            "add_only": True,
        },
        "engines": [
            {"name": "E0 program index / type+call resolver", "path": "sa/index.py sa/types.py", "serves_properties": [c["property_id"] for c in checks],
             "kind_free_text": "ast-based symbol tables, C3 MRO, import resolution, local type inference"},
            {"name": "E4 certain-crash lint", "path": "sa/crash.py", "serves_properties": [c["property_id"] for c in checks],
             "kind_free_text": "syntax + resolved-signature rules for paths that raise on every input"},
            {"name": "E5 ring normal form + table-arm abstract evaluator", "path": "sa/ring.py sa/symt.py sa/tae.py sa/tables/",
             "serves_properties": [c["property_id"] for c in checks if "E5" in c["engine"]],
             "kind_free_text": "abstract interpretation of closed-form table code over exact polynomial/rational-function normal forms; concrete control flow; no solver"},
            {"name": "E1 may-alias / in-place effect analysis", "path": "sa/effects.py sa/torch_model.py", "serves_properties": ["C15"],
             "kind_free_text": "flow-sensitive origin tracking with summaries over resolved callees"},
            {"name": "E8 gradient-flow taint analysis", "path": "sa/gradflow.py sa/autograd_lint.py", "serves_properties": ["C20"],
             "kind_free_text": "interprocedural value-dependence analysis with blocker table, flag specialisation and class buffer state; "
                               "saved-for-backward typestate and hook-receiver rules"},
            {"name": "format / library specification models", "path": "sa/iomodel.py sa/modmodel.py", "serves_properties": ["C18", "C06", "C07", "C09"],
             "kind_free_text": "host models of numpy, io/zlib, SimpleITK, nibabel, MetaIO/NIfTI conventions and torch.nn.Module semantics"},
            {"name": "E7 sibling/pair/forward rules", "path": "sa/siblings.py", "serves_properties": [c["property_id"] for c in checks if "E7" in c["engine"]],
             "kind_free_text": "agreement rules between sibling call sites and wrappers"},
        ],
        "checks": checks,
        "not_applicable": na,
        "notes": "All checks are static (technique family: static analysis). Exit 0 ok / known findings, 1 VIOLATION, 2 ANALYSIS-ERROR (fail closed).",
    }
    with open(os.path.join(HERE, "MANIFEST.json"), "w") as f:
        json.dump(man, f, indent=1)
    print(f"MANIFEST.json: {len(checks)} checks, {len(na)} not_applicable")


if __name__ == "__main__":
    main()
